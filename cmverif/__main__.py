"""python -m cmverif check Cxx [--tier quick|thorough] | replay <path> | selftest"""
from __future__ import annotations

import argparse
import importlib
import json
import os
import sys
import time
import traceback

from . import core


def _check(args):
    prop = args.prop.upper()
    tier = args.tier or os.environ.get("VERIF_TIER") or "quick"
    if tier not in ("quick", "thorough"):
        tier = "quick"
    try:
        seed = int(os.environ.get("VERIF_SEED", "0"))
    except ValueError:
        seed = 0
    core.setup_env()
    core.clean_stale_scratch()
    t0 = time.time()
    # preflight in a fresh interpreter: a tree that is missing or does not import must fail fast (worker processes that die
    # while importing it would be respawned for ever)
    import subprocess

    pre = subprocess.run([core.PY, "-c", "import codemodder.codemodder, core_codemods, codemodder.registry as r; r.load_registered_codemods()"],
                         env=dict(os.environ, PYTHONPATH=str(core.REPO / "src")), capture_output=True, text=True)
    if pre.returncode != 0 or not (core.REPO / "src" / "codemodder").is_dir():
        print(f"HARNESS-ERROR property={prop}: the tree under {core.REPO} cannot be imported: {pre.stderr[-400:]}", file=sys.stderr)
        print(f"{prop} tier={tier} seed={seed} exit={core.EXIT_HARNESS} wall={time.time() - t0:.1f}s")
        return core.EXIT_HARNESS
    try:
        mod = importlib.import_module(f"cmverif.checks.{prop.lower()}")
        from . import drive

        drive.pool()  # fork the workers before this process ever starts a thread or runs the code under test
        level, coverage, violations, assumptions = mod.explore(tier, seed)
        rc = core.finish(prop, tier, seed, level, coverage, violations, t0, assumptions)
    except core.HarnessError as e:
        print(f"HARNESS-ERROR property={prop}: {e}", file=sys.stderr)
        rc = core.EXIT_HARNESS
    except Exception:
        traceback.print_exc()
        print(f"HARNESS-ERROR property={prop}: unexpected exception", file=sys.stderr)
        rc = core.EXIT_HARNESS
    finally:
        from . import drive

        try:
            drive.close_pool()
        except Exception:
            pass
    print(f"{prop} tier={tier} seed={seed} exit={rc} wall={time.time() - t0:.1f}s")
    return rc


def _replay(args):
    core.setup_env()
    body = json.loads(open(args.path).read())
    prop = body["property"]
    mod = importlib.import_module(f"cmverif.checks.{prop.lower()}")
    rp = core.unbytes(body["replay"])
    ok, text = mod.replay(rp)
    print(f"replay property={prop} signature={body['signature']}")
    print(text)
    print("REPRODUCED" if not ok else "NOT-REPRODUCED (property holds on this execution)")
    return 1 if not ok else 0


def _selftest(args):
    from . import selftest

    return selftest.main()


def main():
    ap = argparse.ArgumentParser(prog="cmverif")
    sub = ap.add_subparsers(dest="cmd", required=True)
    c = sub.add_parser("check")
    c.add_argument("prop")
    c.add_argument("--tier", default=None)
    c.set_defaults(fn=_check)
    r = sub.add_parser("replay")
    r.add_argument("path")
    r.set_defaults(fn=_replay)
    s = sub.add_parser("selftest")
    s.set_defaults(fn=_selftest)
    args = ap.parse_args()
    sys.exit(args.fn(args))


if __name__ == "__main__":
    main()
