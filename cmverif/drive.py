"""Drivers: the transition function is the real code.

run_inproc  - codemodder.codemodder.run(argv) inside a (long lived) worker process
run_cli     - the real console entry point in a fresh process
Both take the same Job description and return the same Observation.
"""
from __future__ import annotations

import contextlib
import io
import itertools
import json
import logging
import os
import shutil
import subprocess
import sys
import threading
import traceback
from dataclasses import dataclass, field
from pathlib import Path

from . import core

_counter = itertools.count()


@dataclass
class Job:
    files: dict  # relpath -> bytes  (project tree); value may be ("symlink", target)
    argv: list  # template: "{dir}", "{out}", "{res:<name>}", "{outside}" are substituted
    results: dict = field(default_factory=dict)  # name -> bytes (tool result files, outside the project)
    outside: dict = field(default_factory=dict)  # relpath -> bytes in a sibling dir "outside"
    env: dict = field(default_factory=dict)  # extra environment (None = unset)
    output: bool = True  # add --output {out}
    runs: int = 1  # run the same argv this many times on the evolving tree
    keep_before: bool = True
    modes: dict = field(default_factory=dict)  # relpath -> chmod bits
    pre_hook: str | None = None  # "module:function" called in-process before run (seams)
    pre_hook_arg: object = None
    out_path: str | None = None  # override report path template (e.g. "{scratch}/nodir/x.codetf")
    snapshot_meta: bool = False  # record (mode, mtime_ns) per file as well
    proj_rel: str = "proj"  # where the target directory lives under the scratch root (e.g. "tests/venv/proj")
    debug_logs: bool = False  # capture DEBUG records too (without --verbose, so semgrep stays piped)
    argv_seq: list | None = None  # in-process histories: one argv template per run (overrides argv / runs), same process, same paths
    restore_between: bool = False  # put the original project files back before every run after the first
    out_kind: str | None = None  # what sits at the report path before the run: "fifo" (a reader is attached), "existing", "symlink"


@dataclass
class Observation:
    exits: list
    before: dict
    after: list  # tree after each run
    reports: list  # parsed report or None, per run
    logs: list  # list[list[str]] per run
    stdout: list
    stderr: list
    error: str | None = None  # harness-level error (traceback)
    outside_after: dict = field(default_factory=dict)
    meta_before: dict = field(default_factory=dict)
    meta_after: list = field(default_factory=list)
    report_raw: list = field(default_factory=list)
    extra: dict = field(default_factory=dict)

    @property
    def exit(self):
        return self.exits[-1]

    @property
    def report(self):
        return self.reports[-1]

    @property
    def final(self):
        return self.after[-1]


# --------------------------------------------------------------------------- tree helpers


def write_tree(root: Path, files: dict, modes: dict | None = None):
    root.mkdir(parents=True, exist_ok=True)
    later = []
    for rel, data in files.items():
        p = root / rel
        p.parent.mkdir(parents=True, exist_ok=True)
        if isinstance(data, (tuple, list)) and data and data[0] == "hardlink":
            later.append((p, root / data[1]))  # a second name of a regular file of the same tree
        elif isinstance(data, (tuple, list)) and data and data[0] == "symlink":
            os.symlink(data[1], p)
        elif isinstance(data, (tuple, list)) and data and data[0] == "dir":
            p.mkdir(parents=True, exist_ok=True)
        else:
            p.write_bytes(data)
    for p, target in later:
        os.link(target, p)
    for rel, m in (modes or {}).items():
        os.chmod(root / rel, m)


def read_tree(root: Path, meta: dict | None = None) -> dict:
    out = {}
    if not root.exists():
        return out
    for dirpath, dirnames, filenames in os.walk(root, followlinks=False):
        for name in list(dirnames):
            p = Path(dirpath) / name
            if p.is_symlink():
                out[str(p.relative_to(root))] = ("symlink", os.readlink(p))
            elif not any(p.iterdir()):
                out[str(p.relative_to(root)) + "/"] = ("dir",)
        for name in filenames:
            p = Path(dirpath) / name
            rel = str(p.relative_to(root))
            if p.is_symlink():
                out[rel] = ("symlink", os.readlink(p))
            else:
                out[rel] = p.read_bytes()
            if meta is not None:
                st = os.lstat(p)
                meta[rel] = (st.st_mode, st.st_mtime_ns, st.st_size)
    return out


def _subst(argv, mapping, results_dir):
    out = []
    for a in argv:
        if not isinstance(a, str):
            a = str(a)
        for k, v in mapping.items():
            a = a.replace("{" + k + "}", v)
        while "{res:" in a:
            i = a.index("{res:")
            j = a.index("}", i)
            a = a[:i] + str(results_dir / a[i + 5 : j]) + a[j + 1 :]
        out.append(a)
    return out


# --------------------------------------------------------------------------- normalisation


def normalise_report(rep, scratch_dir: str):
    """Drop what legitimately differs between two runs of the same thing: timing and scratch paths."""
    if rep is None:
        return None
    rep = json.loads(json.dumps(rep))
    run = rep.get("run", {})
    run.pop("elapsed", None)
    s = json.dumps(rep)
    s = s.replace(scratch_dir, "<SCRATCH>")
    return json.loads(s)


def strip_run(rep):
    """Only the results part of a (normalised) report."""
    return None if rep is None else rep.get("results")


# --------------------------------------------------------------------------- in-process driver

_inproc_ready = False
_log_records: list = []


class _Capture(logging.Handler):
    def emit(self, record):
        try:
            _log_records.append(record.getMessage())
        except Exception:  # pragma: no cover
            _log_records.append("<unformattable log record>")


_CACHED_FUNCS = [
    ("core_codemods.sonar.api", "process_sonar_findings"),
    ("core_codemods.defectdojo.api", "_process_results"),
    ("codemodder.codemods.semgrep", "process_semgrep_findings"),
    ("codemodder.codemods.codeql", "process_codeql_findings"),
    ("core_codemods.sonar.results", "SonarResultSet.from_json"),
    ("core_codemods.defectdojo.results", "DefectDojoResultSet.from_json"),
    ("codemodder.codemods.base_visitor", "UtilsMixin.results_for_node"),
]


def reset_caches():
    import importlib

    for mod, attr in _CACHED_FUNCS:
        try:
            obj = importlib.import_module(mod)
            for part in attr.split("."):
                obj = getattr(obj, part)
            cc = getattr(obj, "cache_clear", None)
            if cc is None and hasattr(obj, "__func__"):
                cc = getattr(obj.__func__, "cache_clear", None)
            if cc:
                cc()
        except Exception:
            pass


def init_inproc():
    """Import the code under test once per process and neutralise process-global side effects."""
    global _inproc_ready
    if _inproc_ready:
        return
    core.setup_env()
    os.environ.setdefault("PYTHONHASHSEED", "0")
    import codemodder.codemodder as cm
    import codemodder.logging as cl

    core.assert_repo_import()

    lg = logging.getLogger("codemodder")
    lg.handlers[:] = [_Capture()]
    lg.propagate = False

    def configure_logger(verbose, log_format=None, project_name=None):
        lg.setLevel(logging.DEBUG if (verbose or _force_debug[0]) else logging.INFO)

    cm.configure_logger = configure_logger
    cl.configure_logger = configure_logger
    lg.setLevel(logging.INFO)
    _install_semgrep_tap()
    _inproc_ready = True


_force_debug = [False]
_semgrep_calls: list = []


def _install_semgrep_tap():
    """Record what the codemod's own detector (semgrep) reported, per call: {rule: {path: [(sl, sc, el, ec)]}}.
    Installed at the two names through which the product calls codemodder.semgrep.run; absent names are skipped."""
    import importlib

    def wrap(fn):
        def tapped(*a, **kw):
            rs = fn(*a, **kw)
            try:
                snap = {}
                for rule, by_file in rs.items():
                    for path, results in by_file.items():
                        snap.setdefault(rule, {}).setdefault(str(path), []).extend(
                            (l.start.line, l.start.column, l.end.line, l.end.column) for r in results for l in r.locations
                        )
                _semgrep_calls.append(snap)
            except Exception:
                _semgrep_calls.append(None)
            return rs

        tapped.__wrapped__ = fn
        return tapped

    for mod, name in (("codemodder.codemods.semgrep", "semgrep_run"), ("codemodder.codemodder", "run_semgrep")):
        try:
            m = importlib.import_module(mod)
            fn = getattr(m, name)
            if not hasattr(fn, "__wrapped__"):
                setattr(m, name, wrap(fn))
        except Exception:
            pass


def _resolve_hook(spec):
    import importlib

    mod, fn = spec.split(":")
    return getattr(importlib.import_module(mod), fn)


class _OutTarget:
    """Non-regular report targets: a named pipe with a reader attached, a stale file, a symlink to a file elsewhere."""

    def __init__(self, kind, out: Path, root: Path):
        self.kind, self.out, self.data, self.thread = kind, out, None, None
        if kind == "fifo":
            os.mkfifo(out)
            # our own read-write descriptor keeps the pipe open: neither side blocks in open(), and closing it after the run
            # gives the reader its end-of-file even when nothing was ever written
            self.keep = os.open(out, os.O_RDWR)
            self.thread = threading.Thread(target=self._read, daemon=True)
            self.thread.start()
        elif kind == "existing":
            out.write_text("stale report of an earlier run\n")
            self.stale = out.read_bytes()
        elif kind == "symlink":
            self.target = root / "report_target.json"
            self.target.write_bytes(b"")
            out.symlink_to(self.target)

    def _read(self):
        with open(self.out, "rb") as f:
            self.data = f.read()

    def collect(self):
        """-> raw text written to the target, or None when nothing was written."""
        if self.kind == "fifo":
            os.close(self.keep)
            self.thread.join(timeout=20)
            replaced = None
            if self.out.is_file():  # the pipe was replaced by a regular file (write-then-rename): that file is the report
                replaced = self.out.read_bytes().decode("utf-8", "replace")
            with contextlib.suppress(OSError):
                os.unlink(self.out)
            if replaced:
                return replaced
            return self.data.decode("utf-8", "replace") if self.data else None
        raw = None
        if self.out.is_file():
            b = self.out.read_bytes()
            if b and b != getattr(self, "stale", None):
                raw = b.decode("utf-8", "replace")
        with contextlib.suppress(OSError):
            self.out.unlink()
        return raw


def _report_from(out: Path, target, root: Path):
    rep = raw = None
    if target is not None:
        raw = target.collect()
    elif out.is_file():
        try:
            raw = out.read_text(encoding="utf-8")
        except Exception as e:
            return {"__unreadable__": repr(e)}, None
    if raw is not None:
        try:
            rep = normalise_report(json.loads(raw), str(root))
        except Exception as e:
            rep = {"__unreadable__": repr(e)}
    return rep, raw


def run_inproc(job: Job) -> Observation:
    init_inproc()
    import codemodder.codemodder as cm

    root = core.scratch_root() / f"r{next(_counter)}"
    proj, resd, outside, tmp = root / job.proj_rel, root / "res", (root / job.proj_rel).parent / "outside", root / "tmp"
    for d in (proj, resd, tmp):
        d.mkdir(parents=True, exist_ok=True)
    obs = Observation([], {}, [], [], [], [], [])
    old_env = dict(os.environ)
    old_tmp = os.environ.get("TMPDIR")
    import tempfile

    old_tempdir = tempfile.tempdir
    old_argv0 = sys.argv[0]
    old_cwd = os.getcwd()
    undo = None
    try:
        write_tree(proj, job.files, job.modes)
        if job.outside:
            write_tree(outside, job.outside)
        write_tree(resd, job.results)
        os.environ["TMPDIR"] = str(tmp)
        os.environ["HOME"] = str(root)
        tempfile.tempdir = str(tmp)
        for k, v in job.env.items():
            if v is None:
                os.environ.pop(k, None)
            else:
                os.environ[k] = v
        sys.argv[0] = "codemodder"
        os.chdir(root)
        mapping = {"dir": str(proj), "outside": str(outside), "scratch": str(root)}
        if job.snapshot_meta:
            obs.before = read_tree(proj, obs.meta_before)
        elif job.keep_before:
            obs.before = read_tree(proj)
        if job.pre_hook:
            undo = _resolve_hook(job.pre_hook)(job.pre_hook_arg, obs)
        for i in range(len(job.argv_seq) if job.argv_seq else job.runs):
            if i and job.restore_between:
                shutil.rmtree(proj)
                proj.mkdir(parents=True)
                write_tree(proj, job.files, job.modes)
            out = Path(_subst([job.out_path], mapping, resd)[0]) if job.out_path else root / f"out{i}.codetf"
            mapping["out"] = str(out)
            argv = _subst(job.argv_seq[i] if job.argv_seq else job.argv, mapping, resd)
            if job.output:
                argv += ["--output", str(out)]
            target = _OutTarget(job.out_kind, out, root) if job.out_kind else None
            reset_caches()
            del _log_records[:]
            del _semgrep_calls[:]
            _force_debug[0] = job.debug_logs
            so, se = io.StringIO(), io.StringIO()
            try:
                with contextlib.redirect_stdout(so), contextlib.redirect_stderr(se):
                    try:
                        code = cm.run(argv)
                    except SystemExit as e:
                        code = e.code if isinstance(e.code, int) else (0 if e.code is None else 1)
            except BaseException as e:  # an uncaught exception = what the CLI would turn into exit 1 + traceback
                code = ("exception", type(e).__name__, str(e)[:300])
                se.write(traceback.format_exc())
            obs.exits.append(code)
            obs.logs.append(list(_log_records))
            obs.extra.setdefault("semgrep_calls", []).append(
                [None if c is None else {r: {p.replace(str(proj) + "/", ""): v for p, v in bf.items()} for r, bf in c.items()} for c in _semgrep_calls]
            )
            obs.stdout.append(so.getvalue())
            obs.stderr.append(se.getvalue())
            rep, raw = _report_from(out, target, root)
            obs.reports.append(rep)
            obs.report_raw.append(raw)
            meta = {} if job.snapshot_meta else None
            obs.after.append(read_tree(proj, meta))
            if meta is not None:
                obs.meta_after.append(meta)
            if out.exists() and out.is_file():
                out.unlink()
        if job.outside:
            obs.outside_after = read_tree(outside)
    except BaseException:
        obs.error = traceback.format_exc()
    finally:
        if undo:
            try:
                undo()
            except Exception:
                obs.error = (obs.error or "") + traceback.format_exc()
        os.chdir(old_cwd)
        sys.argv[0] = old_argv0
        os.environ.clear()
        os.environ.update(old_env)
        tempfile.tempdir = old_tempdir
        for rel in job.modes:
            with contextlib.suppress(OSError):
                os.chmod(proj / rel, 0o700)
        shutil.rmtree(root, ignore_errors=True)
    return obs


# --------------------------------------------------------------------------- CLI driver


def run_cli(job: Job, hashseed: str = "0", timeout: int = 600) -> Observation:
    root = core.scratch_root() / f"c{next(_counter)}"
    proj, resd, outside, tmp = root / job.proj_rel, root / "res", (root / job.proj_rel).parent / "outside", root / "tmp"
    for d in (proj, resd, tmp):
        d.mkdir(parents=True, exist_ok=True)
    obs = Observation([], {}, [], [], [], [], [])
    try:
        write_tree(proj, job.files, job.modes)
        if job.outside:
            write_tree(outside, job.outside)
        write_tree(resd, job.results)
        mapping = {"dir": str(proj), "outside": str(outside), "scratch": str(root)}
        if job.snapshot_meta:
            obs.before = read_tree(proj, obs.meta_before)
        elif job.keep_before:
            obs.before = read_tree(proj)
        env = core.base_env({"TMPDIR": str(tmp), "HOME": str(root), "PYTHONHASHSEED": hashseed, **job.env})
        for i in range(job.runs):
            out = Path(_subst([job.out_path], mapping, resd)[0]) if job.out_path else root / f"out{i}.codetf"
            mapping["out"] = str(out)
            argv = _subst(job.argv, mapping, resd)
            if job.output:
                argv += ["--output", str(out)]
            target = _OutTarget(job.out_kind, out, root) if job.out_kind else None
            code = "import sys; sys.argv[0]='codemodder'; from codemodder.codemodder import main; main()"
            run_env = env
            if job.pre_hook:
                # the same harness-side seam (fault wrapper ...) installed in the fresh interpreter, before main(): the real console
                # entry point with its own logging set-up, plus the injected fault
                code = ("import sys, os, json, types; sys.path.insert(1, os.environ['CMVERIF_HARNESS']); from cmverif.drive import _resolve_hook; "
                        "_o = types.SimpleNamespace(extra={}); _resolve_hook(os.environ['CMVERIF_HOOK'])(json.loads(os.environ['CMVERIF_HOOK_ARG']), _o); "
                        "import atexit; atexit.register(lambda: sys.stderr.write('\\nCMVERIF-FAULTS-FIRED ' + json.dumps(_o.extra.get('faults_fired', [])) + '\\n')); " + code)
                run_env = dict(env, CMVERIF_HARNESS=str(core.VERIF), CMVERIF_HOOK=job.pre_hook, CMVERIF_HOOK_ARG=json.dumps(job.pre_hook_arg))
            cmd = [core.PY, "-c", code] + argv
            p = subprocess.run(cmd, env=run_env, cwd=root, capture_output=True, timeout=timeout)
            if job.pre_hook:
                for line in p.stderr.decode("utf-8", "replace").splitlines():
                    if line.startswith("CMVERIF-FAULTS-FIRED "):
                        obs.extra["faults_fired"] = [tuple(x) for x in json.loads(line.split(" ", 1)[1])]
            obs.exits.append(p.returncode)
            so = p.stdout.decode("utf-8", "replace")
            obs.stdout.append(so)
            obs.stderr.append(p.stderr.decode("utf-8", "replace"))
            obs.logs.append(so.splitlines())
            rep, raw = _report_from(out, target, root)
            obs.reports.append(rep)
            obs.report_raw.append(raw)
            meta = {} if job.snapshot_meta else None
            obs.after.append(read_tree(proj, meta))
            if meta is not None:
                obs.meta_after.append(meta)
            if out.exists() and out.is_file():
                out.unlink()
        if job.outside:
            obs.outside_after = read_tree(outside)
    except BaseException:
        obs.error = traceback.format_exc()
    finally:
        for rel in job.modes:
            with contextlib.suppress(OSError):
                os.chmod(proj / rel, 0o700)
        shutil.rmtree(root, ignore_errors=True)
    return obs


# --------------------------------------------------------------------------- worker pool

_POOL = None


def _pool_init():
    core.setup_env()
    # each worker has its own scratch root (pid based)
    core._SCRATCH = None
    # children of the code under test (semgrep under --verbose) inherit fd 1/2: keep them off the check's output
    try:
        log = os.open(str(core.scratch_root() / "worker.log"), os.O_WRONLY | os.O_CREAT | os.O_APPEND)
        os.dup2(log, 1)
        os.dup2(log, 2)
        os.close(log)
    except OSError:
        pass
    try:
        init_inproc()
    except Exception:
        traceback.print_exc()
        raise


def _call(args):
    fn_spec, arg = args
    fn = _resolve_hook(fn_spec) if isinstance(fn_spec, str) else fn_spec
    return fn(arg)


def pool(n: int | None = None):
    global _POOL
    if _POOL is None:
        import multiprocessing as mp

        n = n or int(os.environ.get("CMVERIF_WORKERS", "0")) or min(16, os.cpu_count() or 4)
        _POOL = mp.get_context("fork").Pool(n, initializer=_pool_init)
    return _POOL


def close_pool():
    global _POOL
    if _POOL is not None:
        _POOL.close()
        _POOL.join()
        _POOL = None


def pmap(fn_spec: str, items: list, chunksize: int = 1, ordered=True):
    """Map "module:function" over items in worker processes; results in input order."""
    if not items:
        return []
    p = pool()
    it = p.imap(_call, [(fn_spec, x) for x in items], chunksize)
    return list(it)


def run_jobs(jobs: list[Job]) -> list[Observation]:
    obs = pmap("cmverif.drive:run_inproc", jobs)
    for o in obs:
        if o.error:
            raise core.HarnessError("driver error:\n" + o.error)
    return obs


def seed_rotate(items: list, seed: int) -> list:
    """VERIF_SEED only rotates the visiting order; the explored set is seed independent."""
    if not items:
        return items
    k = seed % len(items)
    return items[k:] + items[:k]


def _replay_call(arg):
    import importlib

    mod, rp = arg
    return importlib.import_module(mod).replay(rp)[0]


def confirm_replays(check_module: str, rps: list) -> list:
    """Re-execute each replay description twice (fresh CLI processes) in parallel.
    -> list of bool: True when the violation reproduced both times."""
    if not rps:
        return []
    res = pmap("cmverif.drive:_replay_call", [(check_module, rp) for rp in rps] * 2)
    n = len(rps)
    return [(not res[i]) and (not res[i + n]) for i in range(n)]
