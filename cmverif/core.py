"""Shared plumbing: environment, scratch space, violations, known findings, evidence."""
from __future__ import annotations

import atexit
import hashlib
import json
import os
import shutil
import sys
import time
from dataclasses import dataclass, field
from pathlib import Path

VERIF = Path(__file__).resolve().parent.parent
REPO = Path(os.environ.get("CMVERIF_REPO", "/repo")).resolve()
VENV_BIN = "/venv/bin"
PY = f"{VENV_BIN}/python"

EXIT_OK, EXIT_VIOLATION, EXIT_HARNESS = 0, 1, 3


class HarnessError(Exception):
    """The machinery itself is broken (never used to hide a violation)."""


# --------------------------------------------------------------------------- environment

AI_VARS = [
    "CODEMODDER_AZURE_OPENAI_API_KEY",
    "CODEMODDER_AZURE_OPENAI_ENDPOINT",
    "CODEMODDER_OPENAI_API_KEY",
    "CODEMODDER_AZURE_LLAMA_API_KEY",
    "CODEMODDER_AZURE_LLAMA_ENDPOINT",
]


def base_env(extra: dict | None = None) -> dict:
    """Environment for child processes (CLI driver, semgrep)."""
    env = dict(os.environ)
    env["PATH"] = VENV_BIN + ":" + env.get("PATH", "/usr/bin:/bin")
    env["SEMGREP_SEND_METRICS"] = "off"
    env["SEMGREP_ENABLE_VERSION_CHECK"] = "0"
    env.setdefault("PYTHONHASHSEED", "0")
    env["PYTHONPATH"] = str(REPO / "src")
    env["PYTHONDONTWRITEBYTECODE"] = "1"
    for v in AI_VARS:
        env.pop(v, None)
    if extra:
        for k, v in extra.items():
            if v is None:
                env.pop(k, None)
            else:
                env[k] = v
    return env


def setup_env():
    """Pin the environment of *this* process and make <repo>/src importable first."""
    os.environ.update(
        {
            "PATH": VENV_BIN + ":" + os.environ.get("PATH", "/usr/bin:/bin"),
            "SEMGREP_SEND_METRICS": "off",
            "SEMGREP_ENABLE_VERSION_CHECK": "0",
            "PYTHONDONTWRITEBYTECODE": "1",
        }
    )
    for v in AI_VARS:
        os.environ.pop(v, None)
    sys.dont_write_bytecode = True
    src = str(REPO / "src")
    if src in sys.path:
        sys.path.remove(src)
    sys.path.insert(0, src)


def assert_repo_import():
    import codemodder

    f = Path(codemodder.__file__).resolve()
    if REPO / "src" not in f.parents:
        raise HarnessError(f"codemodder imported from {f}, expected under {REPO}/src")


# --------------------------------------------------------------------------- scratch

_SCRATCH: Path | None = None


def scratch_root() -> Path:
    global _SCRATCH
    if _SCRATCH is None or not str(_SCRATCH).endswith(f"-{os.getpid()}"):
        base = Path("/dev/shm") if os.access("/dev/shm", os.W_OK) else Path(
            os.environ.get("TMPDIR", "/tmp")
        )
        _SCRATCH = base / f"cmverif-{os.getpid()}"
        _SCRATCH.mkdir(parents=True, exist_ok=True)
        pid = os.getpid()
        root = _SCRATCH

        def _cleanup():
            if os.getpid() == pid:
                shutil.rmtree(root, ignore_errors=True)

        atexit.register(_cleanup)
    return _SCRATCH


def clean_stale_scratch():
    for base in ("/dev/shm", os.environ.get("TMPDIR", "/tmp")):
        try:
            for p in Path(base).glob("cmverif-*"):
                pid = p.name.split("-")[-1]
                if pid.isdigit() and not Path(f"/proc/{pid}").exists():
                    shutil.rmtree(p, ignore_errors=True)
        except OSError:
            pass


# --------------------------------------------------------------------------- violations


@dataclass
class Violation:
    prop: str
    signature: str  # identifies the defect site (not the enumerated variant)
    what: str  # one line: what fails
    replay: dict = field(default_factory=dict)  # everything needed to re-execute
    deviations: int = 0  # fewer = simpler; the simplest of a signature is kept

    def key(self):
        return (self.prop, self.signature)


def load_known() -> list[dict]:
    p = VERIF / "known_findings.json"
    if not p.exists():
        return []
    return json.loads(p.read_text())["findings"]


def _jsonable(o):
    if isinstance(o, bytes):
        try:
            return {"__bytes_utf8__": o.decode("utf-8")}
        except UnicodeDecodeError:
            return {"__bytes_hex__": o.hex()}
    if isinstance(o, (set, frozenset)):
        return sorted(o, key=repr)
    if isinstance(o, Path):
        return str(o)
    if isinstance(o, tuple):
        return list(o)
    raise TypeError(type(o))


def dumps(obj, **kw) -> str:
    return json.dumps(obj, default=_jsonable, ensure_ascii=False, **kw)


def unbytes(o):
    """Inverse of the bytes encoding used in replay files."""
    if isinstance(o, dict):
        if set(o) == {"__bytes_utf8__"}:
            return o["__bytes_utf8__"].encode("utf-8")
        if set(o) == {"__bytes_hex__"}:
            return bytes.fromhex(o["__bytes_hex__"])
        return {k: unbytes(v) for k, v in o.items()}
    if isinstance(o, list):
        return [unbytes(v) for v in o]
    return o


def write_replay(v: Violation) -> Path:
    d = Path(os.environ.get("CMVERIF_REPLAY_DIR") or VERIF / "replays") / v.prop
    d.mkdir(parents=True, exist_ok=True)
    body = {
        "property": v.prop,
        "signature": v.signature,
        "what": v.what,
        "deviations": v.deviations,
        "replay": v.replay,
    }
    text = dumps(body, indent=1, sort_keys=True)
    sha = hashlib.sha256((v.prop + "\0" + v.signature).encode()).hexdigest()[:12]
    p = d / f"{sha}.json"
    p.write_text(text)
    return p


# --------------------------------------------------------------------------- evidence

_EVIDENCE_SCHEMA = None


def _evidence_schema():
    global _EVIDENCE_SCHEMA
    if _EVIDENCE_SCHEMA is None:
        _EVIDENCE_SCHEMA = json.loads((VERIF / "spaces" / "evidence.schema.json").read_text())
    return _EVIDENCE_SCHEMA


def write_evidence(prop, tier, seed, level, coverage, wall_s, violations, assumptions):
    import jsonschema

    ev = {
        "property_id": prop,
        "tier": tier,
        "seed": seed,
        "level": level,
        "coverage": coverage,
        "assumptions": assumptions,
        "wall_s": round(wall_s, 2),
        "violations": violations,
    }
    ev = json.loads(dumps(ev))
    jsonschema.validate(ev, _evidence_schema())
    d = Path(os.environ.get("CMVERIF_EVIDENCE_DIR") or VERIF / "evidence")  # override: runs against a mutant worktree
    d.mkdir(parents=True, exist_ok=True)
    (d / f"{prop}.json").write_text(json.dumps(ev, indent=1, ensure_ascii=False) + "\n")
    return ev


# --------------------------------------------------------------------------- finishing a check


def finish(prop, tier, seed, level, coverage, violations: list[Violation], t0, assumptions):
    """Classify violations against the known-findings file, write replays and evidence,
    print the interface lines and return the exit status."""
    known = [k for k in load_known() if k["property"] == prop]
    open_sigs = {k["signature"]: k for k in known if k["status"] == "open"}
    best: dict[tuple, Violation] = {}
    for v in violations:
        b = best.get(v.key())
        if b is None or (v.deviations, len(dumps(v.replay))) < (b.deviations, len(dumps(b.replay))):
            best[v.key()] = v
    new, seen_known = [], []
    for v in sorted(best.values(), key=lambda v: v.signature):
        if v.signature in open_sigs:
            seen_known.append(v)
            print(f"KNOWN-FINDING: property={prop} {v.signature} :: {v.what}")
        else:
            new.append(v)
    for v in new:
        p = write_replay(v)
        print(f"VIOLATION property={prop} replay={p}")
        print(f"  signature: {v.signature}")
        print(f"  what: {v.what}")
    coverage = dict(coverage)
    coverage["known_findings_seen"] = sorted(v.signature for v in seen_known)
    coverage["known_findings_listed_open"] = len(open_sigs)
    coverage["new_violation_signatures"] = sorted(v.signature for v in new)
    write_evidence(prop, tier, seed, level, coverage, time.time() - t0, len(new), assumptions)
    sys.stdout.flush()
    return EXIT_VIOLATION if new else EXIT_OK


def sha12(b: bytes | str) -> str:
    if isinstance(b, str):
        b = b.encode("utf-8", "surrogateescape")
    return hashlib.sha256(b).hexdigest()[:12]


def tree_state_id(tree: dict[str, bytes]) -> str:
    h = hashlib.sha256()
    for k in sorted(tree):
        h.update(k.encode("utf-8", "surrogateescape") + b"\0" + hashlib.sha256(tree[k]).digest())
    return h.hexdigest()[:16]
