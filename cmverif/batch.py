"""Run programs of the program space through their target codemod, many per invocation (product states).

Batching is justified by sibling independence (checked exhaustively by C11e) and every candidate violation
found in a batch is re-executed alone through the CLI driver before it is reported (confirm-alone rule).
"""
from __future__ import annotations

from dataclasses import dataclass, field

from . import core, drive, progspace, resultfiles


@dataclass
class Rec:
    pid: str
    path: str
    before: bytes
    after: list = field(default_factory=list)  # bytes per run
    cs: list = field(default_factory=list)  # per run: changesets naming this file
    failed: list = field(default_factory=list)  # per run: listed in failedFiles
    unfixed: list = field(default_factory=list)  # per run: unfixedFindings for this path
    exits: list = field(default_factory=list)
    alone: bool = False  # executed in a singleton project
    flagged: list = field(default_factory=list)  # optional: detector locations per phase

    @property
    def changed(self):
        return self.after[0] != self.before


def _units(programs):
    """-> list of job specs: (codemod, [(pid, relpath, bytes, doc)], extra_files, tool)"""
    by_cm = {}
    singles = []
    for p in programs:
        if p.seed.batchable:
            by_cm.setdefault(p.seed.codemod, []).append(p)
        else:
            singles.append(p)
    return by_cm, singles


HEAVY = {  # measured cost classes (advisory: only affects load balancing)
    "pixee:python/sql-parameterization": 5,
    "sonar:python/sql-parameterization": 5,
    "semgrep:python/sql-parameterization": 5,
    "pixee:python/url-sandbox": 2,
    "pixee:python/use-defusedxml": 2,
}


def make_jobs(programs, chunk=120, runs=2, extra_argv=()):
    by_cm, singles = _units(programs)
    jobs = []
    for cm, ps in by_cm.items():
        chunk_cm = max(10, chunk // HEAVY.get(cm, 1))
        n = max(1, -(-len(ps) // chunk_cm))
        size = -(-len(ps) // n)
        for i in range(0, len(ps), size):
            part = ps[i : i + size]
            items = [(p.pid, f"p{i + j:05d}.py", p.src) for j, p in enumerate(part)]
            docs = [p.results_doc(path) for p, (_, path, _) in zip(part, items)] if part[0].seed.tool else None
            jobs.append({"codemod": cm, "items": items, "extra": {}, "tool": part[0].seed.tool, "docs": docs, "runs": runs, "argv": list(extra_argv)})
    for p in singles:
        extra = {s: progspace.SIBLING_CONTENT.get(s, b"") for s in p.seed.siblings}
        docs = [p.results_doc(p.seed.file)] if p.seed.tool else None
        jobs.append({"codemod": p.seed.codemod, "items": [(p.pid, p.seed.file, p.src)], "extra": extra, "tool": p.seed.tool, "docs": docs, "runs": runs, "argv": list(extra_argv), "alone": True})
    jobs.sort(key=lambda j: -len(j["items"]) * HEAVY.get(j["codemod"], 1))
    return jobs


def job_to_drive(spec) -> drive.Job:
    files = {path: data for _, path, data in spec["items"]}
    files.update(spec["extra"])
    argv = ["{dir}", "--codemod-include", spec["codemod"]] + spec["argv"]
    results = {}
    if spec["tool"]:
        a, results = resultfiles.argv_and_files(spec["tool"], spec["docs"])
        argv += a
    return drive.Job(files=files, argv=argv, results=results, runs=spec["runs"], keep_before=False)


def _records(spec, obs) -> list[Rec]:
    recs = []
    for pid, path, data in spec["items"]:
        r = Rec(pid, path, data, alone=len(spec["items"]) == 1)
        for k in range(len(obs.exits)):
            r.exits.append(obs.exits[k])
            r.after.append(obs.after[k].get(path))
            rep = obs.reports[k]
            cs, failed, unfixed = [], False, []
            if rep and "results" in rep:
                for res in rep["results"]:
                    cs += [c for c in res.get("changeset", []) if c.get("path") == path]
                    failed = failed or any(f.endswith("/proj/" + path) or f == path for f in res.get("failedFiles", []) or [])
                    unfixed += [u for u in res.get("unfixedFindings", []) or [] if u.get("path") == path]
            r.cs.append(cs)
            r.failed.append(failed)
            r.unfixed.append(unfixed)
            calls = (obs.extra.get("semgrep_calls") or [[]] * (k + 1))[k]
            fl = None
            for c in calls:  # the last call of the run is the codemod's own detector run
                if c is not None:
                    fl = sorted({loc for bf in c.values() for loc in bf.get(path, [])})
            r.flagged.append(fl)
        recs.append(r)
    return recs


def batch_job(spec) -> list[Rec]:
    obs = drive.run_inproc(job_to_drive(spec))
    if obs.error:
        raise core.HarnessError(obs.error)
    if all(e == 0 for e in obs.exits) or len(spec["items"]) == 1:
        return _records(spec, obs)
    # the run as a whole did not complete: attribute by re-running every program alone
    out = []
    for i, item in enumerate(spec["items"]):
        one = dict(spec, items=[item], docs=[spec["docs"][i]] if spec["docs"] else None)
        o = drive.run_inproc(job_to_drive(one))
        if o.error:
            raise core.HarnessError(o.error)
        out += _records(one, o)
    return out


def run_programs(programs, chunk=120, runs=2, extra_argv=(), seed=0) -> dict:
    jobs = make_jobs(programs, chunk, runs, extra_argv)
    res = drive.pmap("cmverif.batch:batch_job", jobs)
    out = {}
    for recs in res:
        for r in recs:
            out[r.pid] = r
    return out


def run_alone_cli(p: progspace.Program, runs=2, extra_argv=(), hashseed="0"):
    """Confirm-alone: the program in a singleton project through the real console entry point."""
    spec = {
        "codemod": p.seed.codemod,
        "items": [(p.pid, p.seed.file, p.src)],
        "extra": {s: progspace.SIBLING_CONTENT.get(s, b"") for s in p.seed.siblings},
        "tool": p.seed.tool,
        "docs": [p.results_doc(p.seed.file)] if p.seed.tool else None,
        "runs": runs,
        "argv": list(extra_argv),
    }
    obs = drive.run_cli(job_to_drive(spec), hashseed=hashseed)
    if obs.error:
        raise core.HarnessError(obs.error)
    return _records(spec, obs)[0], obs


def confirm_alone_job(arg):
    p, runs, extra_argv = arg
    r1, _ = run_alone_cli(p, runs, extra_argv)
    r2, _ = run_alone_cli(p, runs, extra_argv)
    return r1, r2


def run_alone_inproc(p: progspace.Program, runs=2, extra_argv=()):
    spec = {
        "codemod": p.seed.codemod,
        "items": [(p.pid, p.seed.file, p.src)],
        "extra": {s: progspace.SIBLING_CONTENT.get(s, b"") for s in p.seed.siblings},
        "tool": p.seed.tool,
        "docs": [p.results_doc(p.seed.file)] if p.seed.tool else None,
        "runs": runs,
        "argv": list(extra_argv),
    }
    return batch_job(spec)[0]


def confirm_alone_inproc_job(arg):
    p, runs, extra_argv = arg
    return run_alone_inproc(p, runs, extra_argv), run_alone_inproc(p, runs, extra_argv)


def program_replay(p: progspace.Program, extra=None) -> dict:
    d = {
        "pid": p.pid,
        "seed": p.seed.id,
        "codemod": p.seed.codemod,
        "devs": list(p.devs),
        "file": p.seed.file,
        "siblings": p.seed.siblings,
        "source": p.src,
        "tool": p.seed.tool,
        "results_doc": p.results_doc(p.seed.file),
    }
    if extra:
        d.update(extra)
    return d


def program_from_replay(rp) -> progspace.Program:
    seeds = {s.id: s for s in progspace.load_seeds()}
    seed = seeds[rp["seed"]]
    progspace.register_structural()
    v = progspace.render(seed, tuple(rp["devs"]))
    src = rp["source"] if isinstance(rp["source"], bytes) else rp["source"].encode()
    if v is None or v == "rejected":
        return progspace.Program(rp["pid"], seed, src, tuple(rp["devs"]))
    return progspace.Program(rp["pid"], seed, src, tuple(rp["devs"]), v.dline, v.dcol, v.shift_ok)
