"""Harness-side fault injection for C10 (nothing is compiled into /repo).

install(plan, obs) is used as a drive.Job.pre_hook: it wraps LibcstTransformerPipeline.apply and the
transformer visitor entry points in the harness process and returns the undo function.
plan = {"faults": [{"file": <basename>, "kind": "delete-before" | "raise-entry" | "raise-node" | "write-oserror", "at": "first"|"middle"|"last",
                    "only_transformer": <class name or None>}]}
"""
from __future__ import annotations

import libcst as cst


class InjectedFault(RuntimeError):
    pass


def install(plan, obs):
    import codemodder.codemods.libcst_transformer as lt

    faults = {f["file"]: f for f in plan["faults"]}
    fired = []
    obs.extra["faults_fired"] = fired
    orig_apply = lt.LibcstTransformerPipeline.apply
    orig_transform = lt.LibcstResultTransformer.__dict__["transform"]
    had_visit = "on_visit" in lt.LibcstResultTransformer.__dict__
    had_leave = "on_leave" in lt.LibcstResultTransformer.__dict__
    orig_visit = lt.LibcstResultTransformer.__dict__.get("on_visit")
    orig_leave = lt.LibcstResultTransformer.__dict__.get("on_leave")

    def _applies(f, pipeline_or_cls):
        only = f.get("only_transformer")
        if not only:
            return True
        names = [c.__name__ for c in getattr(pipeline_or_cls, "transformers", [pipeline_or_cls])]
        return only in names

    def apply(self, context, file_context, results):
        f = faults.get(file_context.file_path.name)
        if f and f["kind"] == "delete-before" and _applies(f, self):
            try:
                file_context.file_path.unlink()
                fired.append((f["file"], "delete-before"))
            except FileNotFoundError:
                pass
        return orig_apply(self, context, file_context, results)

    def transform(cls, module, results, file_context):
        f = faults.get(file_context.file_path.name)
        if f and f["kind"] == "raise-entry" and _applies(f, cls):
            fired.append((f["file"], "raise-entry"))
            if f.get("empty_message"):
                raise InjectedFault()  # str(exc) == "": a bare assert / raise ValueError
            raise InjectedFault(f"injected: transformer entry for {f['file']}")
        return orig_transform.__func__(cls, module, results, file_context)

    def on_visit(self, node):
        fc = getattr(self, "file_context", None)
        f = faults.get(fc.file_path.name) if fc is not None else None
        if f and f["kind"] == "raise-node" and _applies(f, type(self)):
            n = getattr(self, "_cmverif_count", 0) + 1
            self._cmverif_count = n
            if (f["at"] == "first" and n == 1) or (f["at"] == "middle" and n == 8):
                fired.append((f["file"], f"raise-node-{f['at']}"))
                raise InjectedFault(f"injected: visit #{n} in {f['file']}")
        return super(lt.LibcstResultTransformer, self).on_visit(node)

    def on_leave(self, original_node, updated_node):
        fc = getattr(self, "file_context", None)
        f = faults.get(fc.file_path.name) if fc is not None else None
        if f and f["kind"] == "raise-node" and f["at"] == "last" and isinstance(original_node, cst.Module) and _applies(f, type(self)):
            fired.append((f["file"], "raise-node-last"))
            raise InjectedFault(f"injected: leaving the module of {f['file']}")
        return super(lt.LibcstResultTransformer, self).on_leave(original_node, updated_node)

    orig_update = lt.update_code

    def update_code(file_path, new_code, *a, **kw):
        f = faults.get(getattr(file_path, "name", str(file_path).rsplit("/", 1)[-1]))
        if f and f["kind"] == "write-oserror":
            fired.append((f["file"], "write-oserror"))
            raise PermissionError(13, "Permission denied (injected)", str(file_path))
        return orig_update(file_path, new_code, *a, **kw)

    lt.update_code = update_code
    lt.LibcstTransformerPipeline.apply = apply
    lt.LibcstResultTransformer.transform = classmethod(transform)
    lt.LibcstResultTransformer.on_visit = on_visit
    lt.LibcstResultTransformer.on_leave = on_leave

    def undo():
        lt.update_code = orig_update
        lt.LibcstTransformerPipeline.apply = orig_apply
        lt.LibcstResultTransformer.transform = orig_transform
        if had_visit:
            lt.LibcstResultTransformer.on_visit = orig_visit
        else:
            del lt.LibcstResultTransformer.on_visit
        if had_leave:
            lt.LibcstResultTransformer.on_leave = orig_leave
        else:
            del lt.LibcstResultTransformer.on_leave

    return undo


def install_codemod_fault(plan, obs):
    """plan = {"codemod": <id>}: that codemod's _apply raises (a detector that dies, a disk error outside the per-file handlers)."""
    import codemodder.codemods.base_codemod as bc

    fired = []
    obs.extra["faults_fired"] = fired
    orig = bc.BaseCodemod._apply

    def _apply(self, context, rules):
        if self.id == plan["codemod"]:
            fired.append((self.id, "codemod-raises"))
            raise InjectedFault(f"injected: {self.id} raises while being applied")
        return orig(self, context, rules)

    bc.BaseCodemod._apply = _apply

    def undo():
        bc.BaseCodemod._apply = orig

    return undo


def install_detector_fault(plan, obs):
    """The codemod's own detection run dies (semgrep killed, out of memory): plan = {"exc": "CalledProcessError" | "OSError"}."""
    import subprocess

    import codemodder.codemods.semgrep as cs

    fired = []
    obs.extra["faults_fired"] = fired
    orig = cs.semgrep_run

    def semgrep_run(*a, **kw):
        fired.append(("semgrep_run", "detector-fails"))
        if plan.get("exc") == "OSError":
            raise OSError(12, "Cannot allocate memory (injected)")
        raise subprocess.CalledProcessError(2, ["semgrep"], output=b"", stderr=b"injected")

    cs.semgrep_run = semgrep_run

    def undo():
        cs.semgrep_run = orig

    return undo
