"""cmverif - bounded exhaustive exploration of codemodder-python (see /verif/DESIGN.md)."""
