"""Manifest contents in the four formats (shared by C03, C04, C14, C09).

Every entry: (label, text, updatable) where `updatable` says whether a dependency *can* be added according to the
tool's documented behaviour (a declared dependency list exists).  Texts use LF; file shapes (CRLF, no final
newline, BOM) are applied by shape().
"""
from __future__ import annotations

import itertools

# --------------------------------------------------------------------------- requirements.txt line alphabet

REQ_LINES = {
    "comment": "# pinned for production",
    "blank": "",
    "pinned": "requests==2.31.0",
    "inline-comment": "flask>=2.0  # web framework",
    "marker": 'pywin32>=1.0; sys_platform == "win32"',
    "extras": "uvicorn[standard]>=0.20",
    "include": "-r base.txt",
    "editable": "-e .",
    "hash": "idna==3.4 \\\n    --hash=sha256:90b77e79eaa3eba6de819a0c442c0b4ceefc341a7a2ab77d7562bf49f425c5c2",
    "url": "pkg @ https://example.invalid/pkg-1.0.tar.gz",
}


def req_texts(maxlen):
    out = [("empty", "")]
    keys = list(REQ_LINES)
    for n in range(1, maxlen + 1):
        for combo in itertools.permutations(keys, n):
            out.append(("+".join(combo), "\n".join(REQ_LINES[k] for k in combo) + "\n"))
    return out


def req_present(pkg, spelling):
    """The needed package already declared under another spelling / case / version."""
    name = {
        "same": pkg,
        "upper": pkg.upper(),
        "underscore": pkg.replace("-", "_"),
        "dot": pkg.replace("-", "."),
        "title": pkg.title(),
    }[spelling]
    return name


SETUP_CFG = {
    "multiline": "[metadata]\nname = demo\n\n[options]\npackages = find:\ninstall_requires =\n    requests>=2\n    flask\n\n[options.extras_require]\ndev =\n    pytest\n",
    "multiline-comments": "[metadata]\nname = demo\n\n[options]\ninstall_requires =\n    requests>=2\n    # a comment between\n    flask\npython_requires = >=3.8\n",
    "inline": "[metadata]\nname = demo\n\n[options]\ninstall_requires = requests>=2, flask\n",
    "tabs": "[metadata]\nname = demo\n\n[options]\ninstall_requires =\n\trequests>=2\n\tflask\n",
    "single": "[options]\ninstall_requires =\n    requests\n",
    "dup-line-elsewhere": "[metadata]\nname = flask\nkeywords =\n    flask\n\n[options]\ninstall_requires =\n    requests\n    flask\n",
    "no-options": "[metadata]\nname = demo\n",
    "no-install-requires": "[metadata]\nname = demo\n\n[options]\npackages = find:\n",
}
SETUP_CFG_UPDATABLE = {"multiline", "multiline-comments", "inline", "tabs", "single", "dup-line-elsewhere"}

PYPROJECT = {
    "pep621-inline": '[project]\nname = "demo"\nversion = "0.1"\ndependencies = ["requests>=2", "flask"]\n',
    "pep621-multiline": '[project]\nname = "demo"\nversion = "0.1"\ndependencies = [\n    "requests>=2",\n    "flask",  # web\n]\n\n[tool.black]\nline-length = 100\n',
    "pep621-empty": '[project]\nname = "demo"\ndependencies = []\n',
    "poetry": '[tool.poetry]\nname = "demo"\nversion = "0.1"\n\n[tool.poetry.dependencies]\npython = "^3.10"\nrequests = "^2.0"\n\n[build-system]\nrequires = ["poetry-core"]\n',
    "poetry-no-deps": '[tool.poetry]\nname = "demo"\nversion = "0.1"\n',
    "poetry-mypy-group": '[tool.poetry]\nname = "demo"\n\n[tool.poetry.dependencies]\npython = "^3.10"\n\n[tool.poetry.group.test.dependencies]\nmypy = "^1.0"\n',
    "comments-and-tables": '# build config\n[build-system]\nrequires = ["setuptools"]  # pinned elsewhere\n\n[project]\nname = "demo"\ndependencies = [\n  "requests>=2",\n]\n\n[project.optional-dependencies]\ndev = ["pytest"]\n',
    "no-project": '[build-system]\nrequires = ["setuptools"]\n',
    "project-no-deps": '[project]\nname = "demo"\nversion = "0.1"\n',
}
PYPROJECT_UPDATABLE = {"pep621-inline", "pep621-multiline", "pep621-empty", "poetry", "poetry-no-deps", "poetry-mypy-group", "comments-and-tables"}

SETUP_PY = {
    "multiline-trailing": 'from setuptools import setup\n\nsetup(\n    name="demo",\n    install_requires=[\n        "requests>=2",\n        "flask",\n    ],\n)\n',
    "multiline-no-trailing": 'from setuptools import setup\n\nsetup(\n    name="demo",\n    install_requires=[\n        "requests>=2",\n        "flask"\n    ],\n)\n',
    "single-line": 'from setuptools import setup\n\nsetup(name="demo", install_requires=["requests>=2", "flask"])\n',
    "one-element": 'from setuptools import setup\n\nsetup(name="demo", install_requires=["requests>=2"])\n',
    "one-element-multiline": 'from setuptools import setup\n\nsetup(\n    name="demo",\n    install_requires=[\n        "requests>=2"\n    ],\n)\n',
    "aliased": 'import setuptools as st\n\nst.setup(name="demo", install_requires=["requests>=2", "flask"])\n',
    "empty-list": 'from setuptools import setup\n\nsetup(name="demo", install_requires=[])\n',
    "variable": 'from setuptools import setup\n\nREQS = ["requests>=2"]\nsetup(name="demo", install_requires=REQS)\n',
    "no-install-requires": 'from setuptools import setup\n\nsetup(name="demo")\n',
}
SETUP_PY_UPDATABLE = {"multiline-trailing", "multiline-no-trailing", "single-line", "one-element", "one-element-multiline", "aliased"}

KINDS = {
    "requirements.txt": None,
    "setup.cfg": (SETUP_CFG, SETUP_CFG_UPDATABLE),
    "pyproject.toml": (PYPROJECT, PYPROJECT_UPDATABLE),
    "setup.py": (SETUP_PY, SETUP_PY_UPDATABLE),
}

SHAPES = ["lf", "crlf", "nofinal", "bom"]


def shape(text: str, kind: str) -> bytes:
    if kind == "lf":
        return text.encode()
    if kind == "crlf":
        return text.replace("\n", "\r\n").encode()
    if kind == "nofinal":
        return text.rstrip("\n").encode()
    if kind == "bom":
        return b"\xef\xbb\xbf" + text.encode()
    raise ValueError(kind)


# source files that make a dependency-adding codemod fire (codemod id -> (source, canonical package names added))
DEP_TRIGGERS = {
    "pixee:python/harden-pickle-load": (b"import pickle\n\ndata = pickle.load(open('f', 'rb'))\n", ["fickling"]),
    "pixee:python/use-defusedxml": (b"from xml.etree.ElementTree import parse\n\net = parse('user_input.xml')\n", ["defusedxml"]),
    "pixee:python/url-sandbox": (b"import requests\n\nrequests.get('https://example.com')\n", ["security"]),
    "pixee:python/sandbox-process-creation": (b"import subprocess\n\ndef f(cmd):\n    subprocess.run(cmd, shell=True)\n", ["security"]),
    "pixee:python/flask-enable-csrf-protection": (b"from flask import Flask\n\napp = Flask(__name__)\n", ["flask-wtf"]),
}
