"""setup_cmd: nothing is built; verify that the offline environment can run the checks and that the
oracles pass their own exhaustive self-tests."""
from __future__ import annotations

import importlib
import subprocess
import sys
import time

from . import core


def main():
    t0 = time.time()
    core.setup_env()
    core.clean_stale_scratch()
    ok = True

    def step(name, fn):
        nonlocal ok
        try:
            msg = fn()
            print(f"ok   {name}: {msg}")
        except Exception as e:  # noqa
            ok = False
            print(f"FAIL {name}: {type(e).__name__}: {e}")

    def _import():
        import codemodder

        core.assert_repo_import()
        return codemodder.__file__

    def _semgrep():
        p = subprocess.run(["semgrep", "--version"], env=core.base_env(), capture_output=True, text=True, timeout=120)
        if p.returncode != 0:
            raise RuntimeError(p.stderr[-300:])
        return p.stdout.strip()

    def _scratch():
        r = core.scratch_root()
        (r / "probe").write_bytes(b"x")
        return str(r)

    def _schemas():
        import json

        for n in ("evidence.schema.json", "manifest.schema.json", "codetf.schema.json"):
            json.loads((core.VERIF / "spaces" / n).read_text())
        return "3 schemas"

    step("import code under test", _import)
    step("semgrep offline", _semgrep)
    step("scratch", _scratch)
    step("schemas", _schemas)
    for mod in ("udiff", "scope", "xmlinfo", "manifests"):
        try:
            m = importlib.import_module(f"cmverif.oracles.{mod}")
        except ModuleNotFoundError:
            continue
        step(f"oracle self-test {mod}", m.selftest)
    print(f"selftest {'passed' if ok else 'FAILED'} in {time.time() - t0:.1f}s")
    return 0 if ok else core.EXIT_HARNESS


if __name__ == "__main__":
    sys.exit(main())
