"""Tool result files (Sonar JSON, Semgrep SARIF, DefectDojo JSON): relocate and merge.

A seed of a SAST codemod carries the result file its upstream test used, naming `code.py`.  When the
program space wraps / shifts the source, the same (dline, dcol) shift is applied to every location; when
many programs are batched in one project, each program's findings are re-targeted at its own file and the
documents are merged into one file per tool flag.
"""
from __future__ import annotations

import copy
import json

SARIF_TEMPLATE = {
    "version": "2.1.0",
    "$schema": "https://docs.oasis-open.org/sarif/sarif/v2.1.0/os/schemas/sarif-schema-2.1.0.json",
    "runs": [{"tool": {"driver": {"name": "Semgrep OSS", "semanticVersion": "1.90.0", "rules": []}}, "results": []}],
}


def _shift_sonar_entry(e, path, dline, dcol):
    if "component" in e:
        e["component"] = f"proj:{path}"
    tr = e.get("textRange")
    if tr:
        tr["startLine"] += dline
        tr["endLine"] += dline
        if "startOffset" in tr:
            tr["startOffset"] += dcol
        if "endOffset" in tr:
            tr["endOffset"] += dcol
    for flow in e.get("flows", []) or []:
        for loc in flow.get("locations", []) or []:
            _shift_sonar_entry(loc, path, dline, dcol)


def _walk_sarif(o, path, dline, dcol):
    if isinstance(o, dict):
        pl = o.get("physicalLocation")
        if isinstance(pl, dict):
            if "artifactLocation" in pl:
                pl["artifactLocation"]["uri"] = path
            r = pl.get("region")
            if r:
                for k in ("startLine", "endLine"):
                    if k in r:
                        r[k] += dline
                for k in ("startColumn", "endColumn"):
                    if k in r:
                        r[k] += dcol
        for k, v in o.items():
            if k != "physicalLocation":
                _walk_sarif(v, path, dline, dcol)
    elif isinstance(o, list):
        for v in o:
            _walk_sarif(v, path, dline, dcol)


def findings_of(tool: str, doc: dict) -> list:
    """Flat list of finding entries of a document: [(kind, entry)], kind in issues/hotspots/results."""
    if tool == "sonar":
        return [("issues", e) for e in doc.get("issues") or []] + [("hotspots", e) for e in doc.get("hotspots") or []]
    if tool == "semgrep":
        return [("results", r) for run in doc.get("runs", []) for r in run.get("results", [])]
    if tool == "defectdojo":
        return [("results", r) for r in doc.get("results") or []]
    raise ValueError(tool)


def relocate(tool: str, doc: dict, path: str, dline: int = 0, dcol: int = 0) -> dict:
    doc = copy.deepcopy(doc)
    for kind, e in findings_of(tool, doc):
        if tool == "sonar":
            _shift_sonar_entry(e, path, dline, dcol)
        elif tool == "semgrep":
            _walk_sarif(e, path, dline, dcol)
        else:
            e["file_path"] = path
            e["line"] += dline
    return doc


def merge(tool: str, docs: list[dict]) -> dict:
    """-> {flag: (filename, bytes)}  one file per command-line flag."""
    if tool == "sonar":
        issues, hotspots = [], []
        for d in docs:
            issues += d.get("issues") or []
            hotspots += d.get("hotspots") or []
        out = {}
        if issues or not hotspots:
            out["--sonar-issues-json"] = ("sonar_issues.json", json.dumps({"issues": issues}).encode())
        if hotspots:
            out["--sonar-hotspots-json"] = ("sonar_hotspots.json", json.dumps({"hotspots": hotspots}).encode())
        return out
    if tool == "semgrep":
        base = copy.deepcopy(SARIF_TEMPLATE)
        for d in docs:
            for run in d.get("runs", []):
                base["runs"][0]["results"] += run.get("results", [])
        return {"--sarif": ("semgrep.sarif", json.dumps(base).encode())}
    if tool == "defectdojo":
        res = []
        for d in docs:
            res += d.get("results") or []
        return {"--defectdojo-findings-json": ("defectdojo.json", json.dumps({"results": res}).encode())}
    raise ValueError(tool)


def argv_and_files(tool: str, docs: list[dict]):
    argv, files = [], {}
    for flag, (name, data) in merge(tool, docs).items():
        argv += [flag, "{res:%s}" % name]
        files[name] = data
    return argv, files
