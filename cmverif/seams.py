"""Harness-side seams that put sources of nondeterminism under the explorer's control (C11 b, c, d).
Each function has the drive.Job.pre_hook signature (arg, obs) -> undo."""
from __future__ import annotations

import itertools
import threading
import time


class _OrderedSet(list):
    """Stands in for set() inside codemodder.registry: same elements, enumerated iteration order."""

    def __init__(self, it=()):
        super().__init__(dict.fromkeys(it))

    def add(self, x):
        if x not in self:
            self.append(x)

    def update(self, it):
        for x in it:
            self.add(x)


def perm_entry_points(perm, obs):
    """The codemod entry points are delivered - and iterated - in the given order."""
    import codemodder.registry as reg
    from importlib.metadata import entry_points

    eps = sorted(entry_points().select(group="codemods"), key=lambda e: e.name)
    ordered = [eps[i] for i in perm]
    obs.extra["entry_point_order"] = [e.name for e in ordered]

    class _EPs:
        def select(self, **kw):
            if kw == {"group": "codemods"}:
                return list(ordered)
            return entry_points().select(**kw)

    old_ep = reg.entry_points
    reg.entry_points = lambda: _EPs()
    reg.set = lambda it=(): _OrderedSet(it)

    def undo():
        reg.entry_points = old_ep
        if "set" in vars(reg):
            del reg.set

    return undo


def permutations_of(n, exhaustive_upto=4):
    """All permutations for n <= exhaustive_upto, else identity, all rotations and the reversal."""
    if n <= exhaustive_upto:
        return [tuple(p) for p in itertools.permutations(range(n))]
    base = list(range(n))
    out = [tuple(base[k:] + base[:k]) for k in range(n)] + [tuple(reversed(base))]
    return list(dict.fromkeys(out))


def perm_rglob(arg, obs):
    """Path.rglob(pattern) answers for the chosen pattern are returned in the chosen order.
    arg = {"pattern": str, "perm": "identity" | "reverse" | ["rot", k] | [indices...]}"""
    import pathlib

    orig = pathlib.Path.rglob
    sizes = obs.extra.setdefault("rglob_sizes", {})

    def rglob(self, pattern, *a, **kw):
        raw = list(orig(self, pattern, *a, **kw))
        if pattern != arg["pattern"]:
            return iter(raw)
        res = sorted(raw)  # canonical base order, then the enumerated permutation
        sizes[pattern] = max(sizes.get(pattern, 0), len(res))
        p = arg["perm"]
        if p == "identity":
            out = res
        elif p == "reverse":
            out = res[::-1]
        elif isinstance(p, (list, tuple)) and p and p[0] == "rot":
            k = p[1] % max(1, len(res))
            out = res[k:] + res[:k]
        else:
            out = [res[i] for i in p if i < len(res)] + [r for j, r in enumerate(res) if j not in p]
        return iter(out)

    pathlib.Path.rglob = rglob

    def undo():
        pathlib.Path.rglob = orig

    return undo


def inflight_counter(arg, obs):
    """Count how many per-file tasks are inside BaseCodemod._process_file at the same time (free running threads).
    Each task lingers `arg` seconds so that an unbounded pool would overlap."""
    import codemodder.codemods.base_codemod as bc

    orig = bc.BaseCodemod._process_file
    lock = threading.Lock()
    state = {"cur": 0, "max": 0, "calls": 0}
    obs.extra["inflight"] = state

    def _process_file(self, *a, **kw):
        with lock:
            state["cur"] += 1
            state["calls"] += 1
            state["max"] = max(state["max"], state["cur"])
        try:
            time.sleep(arg)
            return orig(self, *a, **kw)
        finally:
            with lock:
                state["cur"] -= 1

    bc.BaseCodemod._process_file = _process_file

    def undo():
        bc.BaseCodemod._process_file = orig

    return undo
