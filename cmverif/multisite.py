"""Programs with n equally fixable sites, built from the pinned seeds (shared by C06 and C13).

The tail of a seed (everything after its leading import block) is repeated n times; for SAST seeds the upstream
result file is relocated once per copy (line shift k*T), so every copy carries exactly the findings the tool would
report for it.  Which input lines belong to a "site" is measured, not assumed: a reference run with every copy
reported / no line filter tells which input lines the codemod rewrites.
"""
from __future__ import annotations

import copy
import difflib
from dataclasses import dataclass

from . import progspace, resultfiles


MARKER = "_site_marker_"


@dataclass
class MultiSite:
    seed: progspace.Seed
    n: int
    text: str
    head_lines: int
    tail_lines: int
    wrap: int  # nesting levels of `if True:` around the whole file (column offset 4*wrap, line offset wrap)
    docs: list | None  # per copy: result document naming "code.py" (SAST seeds)

    def copy_of(self, line: int):
        """Which copy an input line (1-based) belongs to, or None for the head."""
        k = line - self.wrap - self.head_lines - 1
        if k < 0:
            return None
        c = k // self.tail_lines
        return c if c < self.n else None

    def copy_range(self, c):
        a = self.wrap + self.head_lines + c * self.tail_lines + 1
        return a, a + self.tail_lines - 1

    def blank_line_of(self, c):
        return self.copy_range(c)[1]

    def segments(self, text: str):
        """Split a (rewritten) file into its copies using the marker statements -> list of line lists, or None."""
        lines = text.splitlines()
        idx = []
        for k in range(self.n):
            want = f"{MARKER} = {k}"
            hits = [i for i, l in enumerate(lines) if l.strip() == want]
            if len(hits) != 1:
                return None
            idx.append(hits[0])
        if idx != sorted(idx):
            return None
        segs = []
        start = None
        for k, i in enumerate(idx):
            if k == 0:
                # copy 0 starts after the (possibly rewritten) head: take as many lines as the original copy has
                start = max(0, i - (self.tail_lines - 2))
            seg = lines[start:i]
            if k > 0 and seg and not seg[0].strip():
                seg = seg[1:]  # the blank separator line that follows the previous marker is not part of this copy
            segs.append(seg)
            start = i + 1
        return segs

    def copy_changes(self, after: bytes):
        """{copy: sorted relative (0-based) original lines that were replaced or deleted, '+k' marks insertions}; None when
        the copies cannot be told apart any more."""
        orig = self.segments(self.text)
        new = self.segments(after.decode("utf-8", "replace"))
        if orig is None or new is None:
            return None
        out = {}
        for c in range(self.n):
            a = [l for l in orig[c]]
            b = [l for l in new[c]]
            while b and not b[0].strip() and (not a or a[0].strip()):
                b = b[1:]
            sm = difflib.SequenceMatcher(None, a, b, autojunk=False)
            ch = []
            for op, i1, i2, j1, j2 in sm.get_opcodes():
                if op in ("replace", "delete"):
                    ch += list(range(i1, i2))
                elif op == "insert":
                    ch.append(f"+{i1}")
            out[c] = ch
        return out


def _finding_lines(tool, doc):
    out = []
    for _, e in resultfiles.findings_of(tool, doc):
        if tool == "sonar":
            tr = e.get("textRange")
            if tr:
                out.append((tr["startLine"], tr["endLine"]))
        elif tool == "semgrep":
            for l in e.get("locations", []):
                r = l["physicalLocation"]["region"]
                out.append((r["startLine"], r.get("endLine", r["startLine"])))
        else:
            out.append((e["line"], e["line"]))
    return out


def build(seed: progspace.Seed, n: int, wrap: int = 0) -> MultiSite | None:
    text = seed.input
    if not text.endswith("\n"):
        text += "\n"
    sp = progspace._split_head(text)
    head, tail = sp if sp else ("", text)
    # every copy ends with a unique marker statement and a blank line: the marker keeps compound statements of one copy
    # from swallowing the next and lets the rewritten file be split into copies without guessing an alignment
    tail = tail.rstrip("\n") + "\n"
    H, T = head.count("\n"), tail.count("\n") + 2
    docs = None
    if seed.tool:
        spans = _finding_lines(seed.tool, seed.results)
        if not spans or any(a <= H or b > H + T for a, b in spans):
            return None  # a finding points into the import block: copies cannot carry it
        docs = [resultfiles.relocate(seed.tool, seed.results, "code.py", dline=wrap + k * T, dcol=4 * wrap) for k in range(n)]
        # finding identities must be distinguishable per copy where the format has one
        for k, d in enumerate(docs):
            for j, (_, e) in enumerate(resultfiles.findings_of(seed.tool, d)):
                if seed.tool == "sonar":
                    e["key"] = f"K{k}-{j}"
                elif seed.tool == "defectdojo":
                    e["id"] = 100 * (k + 1) + j
    body = head + "".join(tail + f"{MARKER} = {k}\n\n" for k in range(n))
    for _ in range(wrap):
        body = "if True:\n" + progspace._indent(body)
    data = body.encode()
    if not progspace.py_ok(data, seed.compiles):
        return None
    return MultiSite(seed, n, body, H, T, wrap, docs)


def doc_for(ms: MultiSite, path: str, copies) -> dict:
    """Result document for `path` reporting exactly the given copies."""
    tool = ms.seed.tool
    docs = [resultfiles.relocate(tool, ms.docs[k], path) for k in copies]
    merged = {"issues": [], "hotspots": []} if tool == "sonar" else ({"results": []} if tool == "defectdojo" else copy.deepcopy(resultfiles.SARIF_TEMPLATE))
    for d in docs:
        for kind, e in resultfiles.findings_of(tool, d):
            if tool == "semgrep":
                merged["runs"][0]["results"].append(e)
            else:
                merged[kind].append(e)
    return merged


def changed_input_lines(before: bytes, after: bytes):
    """Input lines (1-based) whose text was replaced 1:1 or deleted; inserted lines are not attributed."""
    b, a = before.decode("utf-8", "replace").splitlines(), after.decode("utf-8", "replace").splitlines()
    sm = difflib.SequenceMatcher(None, b, a, autojunk=False)
    replaced, deleted, inserted_after = set(), set(), set()
    for op, i1, i2, j1, j2 in sm.get_opcodes():
        if op == "replace":
            if i2 - i1 == j2 - j1:
                replaced |= {i + 1 for i in range(i1, i2) if b[i] != a[j1 + (i - i1)]}
            else:
                replaced |= set(range(i1 + 1, i2 + 1))
        elif op == "delete":
            deleted |= set(range(i1 + 1, i2 + 1))
        elif op == "insert":
            inserted_after.add(i1)
    return replaced, deleted, inserted_after
