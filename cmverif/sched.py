"""Stateless, preemption-bounded exploration of the thread interleavings of BaseCodemod._apply (C11a).

The per-file tasks run on the real ThreadPoolExecutor (a subclass of it), but every task is gated by a baton
(one semaphore per task): exactly one task runs at a time and control returns to the scheduler at every
scheduling point.  Scheduling points are function-level seams (coarse) or every line event in the framework
modules that touch per-run objects (line).  Executions always run to completion; switching away from a task that
could continue costs one preemption.
"""
from __future__ import annotations

import sys
import threading
from concurrent.futures import ThreadPoolExecutor as _RealTPE
from dataclasses import dataclass, field


class ScheduleDivergence(Exception):
    """A replayed prefix met a different set of enabled tasks: the harness does not own all nondeterminism."""


class Deadlock(Exception):
    pass


@dataclass
class Point:
    enabled: list  # canonical order: the running task first if it can continue, then ascending ids
    chosen: int  # index into enabled
    running_enabled: bool
    label: object = None


class _Baton:
    """A binary hand-off built on one raw lock (much cheaper than threading.Semaphore's condition variable)."""

    __slots__ = ("_l",)

    def __init__(self):
        self._l = threading.Lock()
        self._l.acquire()

    def release(self):
        self._l.release()

    def acquire(self, timeout=None):
        if timeout is None:
            return self._l.acquire()
        return self._l.acquire(timeout=timeout)


@dataclass
class Task:
    idx: int
    sem: _Baton = field(default_factory=_Baton)
    done: bool = False
    started: bool = False


class Scheduler:
    def __init__(self, prefix, trace_lines=False, line_files=()):
        self.prefix = list(prefix)
        self.tasks: list[Task] = []
        self.handoff = _Baton()
        self.points: list[Point] = []
        self.current = None
        self.local = threading.local()
        self.trace_lines = trace_lines
        self.line_files = tuple(line_files)
        self.max_in_flight = 0
        self.finished = False
        self.error = None
        self.last_label = None

    # ----- task side
    def run_task(self, k, fn, args, kwargs):
        t = self.tasks[k]
        t.sem.acquire()
        self.local.task = k
        t.started = True
        try:
            return fn(*args, **kwargs)
        finally:
            t.done = True
            self.local.task = None
            self.handoff.release()

    def point(self, label=None):
        k = getattr(self.local, "task", None)
        if k is None:
            return  # not inside a scheduled task (main thread)
        self.last_label = label
        self.handoff.release()
        self.tasks[k].sem.acquire()

    def _global_trace(self, frame, event, arg):
        if event == "call" and frame.f_code.co_filename.endswith(self.line_files):
            return self._local_trace
        return None

    def _local_trace(self, frame, event, arg):
        if event == "line":
            self.point(("line", frame.f_code.co_filename.rsplit("/", 1)[-1], frame.f_lineno))
        return self._local_trace

    # ----- scheduler side (runs in the thread that called map()/shutdown())
    def loop(self):
        # re-entrant: every pool the code under test creates during one execution (a loader pool, then the per-file pool ...)
        # hands its tasks to the same scheduler; a call returns when every task submitted so far has finished
        if self.tasks and all(t.done for t in self.tasks):
            return
        while True:
            live = [t.idx for t in self.tasks if not t.done]
            if not live:
                break
            running_enabled = self.current is not None and not self.tasks[self.current].done
            # the pool semantics: a task that has not started yet can start only while fewer than max_workers are in flight
            cap = getattr(self, "requested_workers", None) or 10**9
            in_flight_now = sum(1 for t in self.tasks if t.started and not t.done)
            live = [i for i in live if self.tasks[i].started or in_flight_now < cap]
            if not live:
                raise Deadlock("no enabled task")
            enabled = ([self.current] if running_enabled else []) + [i for i in live if i != self.current or not running_enabled]
            i = len(self.points)
            choice = self.prefix[i] if i < len(self.prefix) else 0
            if choice >= len(enabled):
                raise ScheduleDivergence(f"point {i}: choice {choice} but only {len(enabled)} tasks enabled")
            self.points.append(Point(enabled, choice, running_enabled, self.last_label))
            self.current = enabled[choice]
            in_flight = sum(1 for t in self.tasks if t.started and not t.done) + (0 if self.tasks[self.current].started else 1)
            self.max_in_flight = max(self.max_in_flight, in_flight)
            self.tasks[self.current].sem.release()
            if not self.handoff.acquire(timeout=120):
                raise Deadlock(f"task {self.current} did not come back to the scheduler")
        self.finished = True

    @property
    def choices(self):
        return [p.chosen for p in self.points]

    def preemptions(self):
        return sum(1 for p in self.points if p.running_enabled and p.chosen != 0)


def make_executor(sched: Scheduler):
    class SchedExecutor(_RealTPE):
        def __init__(self, max_workers=None, *a, **kw):
            self.requested_workers = max_workers
            sched.requested_workers = max_workers
            super().__init__(max_workers=64, *a, **kw)  # every task gets its own (gated) thread

        def submit(self, fn, /, *args, **kwargs):
            k = len(sched.tasks)
            sched.tasks.append(Task(k))
            return super().submit(sched.run_task, k, fn, args, kwargs)

        def map(self, fn, *iterables, timeout=None, chunksize=1):
            it = super().map(fn, *iterables, timeout=timeout, chunksize=chunksize)
            sched.loop()
            return it

        def shutdown(self, wait=True, *, cancel_futures=False):
            try:
                sched.loop()
            finally:
                super().shutdown(wait=wait, cancel_futures=cancel_futures)

    return SchedExecutor


def explore(run, bound, prefixes=((),), on_execution=None, cap=None):
    """Iterative DFS.  run(prefix) -> (Scheduler, outcome).  Explores every schedule reachable from the given
    prefixes with at most `bound` preemptions.  -> (executions, outcomes dict outcome->example choices, capped)"""
    stack = [list(p) for p in prefixes]
    executions = 0
    outcomes = {}
    capped = False
    while stack:
        prefix = stack.pop()
        s, outcome = run(prefix)
        executions += 1
        ch = s.choices
        if ch[: len(prefix)] != prefix:
            raise ScheduleDivergence(f"prefix {prefix} replayed as {ch[:len(prefix)]}")
        outcomes.setdefault(outcome, ch)
        if on_execution:
            on_execution(s, outcome)
        pre = 0
        for i, p in enumerate(s.points):
            if i >= len(prefix):
                cost = pre + (1 if p.running_enabled else 0)
                if cost <= bound:
                    for alt in range(1, len(p.enabled)):
                        stack.append(ch[:i] + [alt])
            if p.running_enabled and p.chosen != 0:
                pre += 1
        if cap and executions >= cap:
            break
    return executions, outcomes, stack


# --------------------------------------------------------------------------- line events (PEP 669)

_MON = {"installed": False, "codes": [], "cb": None}


def _code_objects(module):
    import types

    seen, out = set(), []

    def walk(code):
        if id(code) in seen:
            return
        seen.add(id(code))
        out.append(code)
        for c in code.co_consts:
            if isinstance(c, types.CodeType):
                walk(c)

    fn = getattr(module, "__file__", None)
    for obj in list(vars(module).values()):
        for f in ([obj] if isinstance(obj, types.FunctionType) else [v for v in vars(obj).values()] if isinstance(obj, type) else []):
            f = getattr(f, "__func__", f)
            f = getattr(f, "__wrapped__", f)
            code = getattr(f, "__code__", None)
            if code is not None and code.co_filename == fn:
                walk(code)
    return out


def install_line_events(modules, callback):
    """Deliver a LINE event for every line executed in the given modules' own functions (and nowhere else)."""
    mon = sys.monitoring
    if not _MON["installed"]:
        mon.use_tool_id(mon.DEBUGGER_ID, "cmverif")
        _MON["installed"] = True
    _MON["cb"] = callback

    def on_line(code, line):
        cb = _MON["cb"]
        if cb is not None:
            cb(code.co_filename, line)

    mon.register_callback(mon.DEBUGGER_ID, mon.events.LINE, on_line)
    for m in modules:
        for code in _code_objects(m):
            mon.set_local_events(mon.DEBUGGER_ID, code, mon.events.LINE)
            _MON["codes"].append(code)
    return len(_MON["codes"])


def set_line_callback(callback):
    _MON["cb"] = callback


def install_call_events(modules, callback):
    """Deliver a PY_START event (function entry) for every function of the given modules (visitor-callback granularity)."""
    mon = sys.monitoring
    if not _MON["installed"]:
        mon.use_tool_id(mon.DEBUGGER_ID, "cmverif")
        _MON["installed"] = True
    _MON["call_cb"] = callback

    def on_start(code, offset):
        cb = _MON.get("call_cb")
        if cb is not None:
            cb(code.co_filename, code.co_name)

    mon.register_callback(mon.DEBUGGER_ID, mon.events.PY_START, on_start)
    n = 0
    for m in modules:
        for code in _code_objects(m):
            cur = 0
            try:
                cur = mon.get_local_events(mon.DEBUGGER_ID, code)
            except Exception:
                pass
            mon.set_local_events(mon.DEBUGGER_ID, code, cur | mon.events.PY_START)
            n += 1
    return n
