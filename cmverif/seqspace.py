"""Histories of codemod invocations on collision projects (shared by C01, C02, C03, C09, C15).

For every ordered pair (K1, K2) of the interacting codemods a small project is built from the canonical
trigger seeds of both (alone, concatenated in both orders), a collision file that several codemods rewrite on
the same lines, and a manifest; then
    batch : one invocation  --codemod-include K1,K2
    chain : two invocations --codemod-include K1 ; --codemod-include K2   on the evolving tree
are executed by the real run().  A state is a project tree, a transition one invocation.
"""
from __future__ import annotations

import itertools
import time

from . import cache, core, drive, progspace

COLLISION = b'''import logging
import pickle
import random
import subprocess
import tempfile
import threading

import requests
import yaml


def handler(url, cmd, data, x, items):
    with threading.Lock(), open(url) as fh:  # several with-items: a shape bad-lock-with-statement detects but declines
        fh.read()
    resp = requests.get(url, verify=False)
    subprocess.run(cmd, shell=True)
    token = random.random()
    cfg = yaml.load(data, Loader=yaml.Loader)
    obj = pickle.loads(data)
    name = tempfile.mktemp()
    logging.info("value %s" % x)
    logging.warn("deprecated")
    if items == []:
        breakpoint()
    total = sum([i for i in items])
    return resp, token, cfg, obj, name, total
'''

MANIFEST = b"requests>=2\npyyaml\n"
# a second updatable manifest: two codemods needing the same package must still update only one of them
MANIFEST2 = b"[metadata]\nname = demo\n\n[options]\ninstall_requires =\n    requests>=2\n    pyyaml\n"

# the interacting codemods: import-adding, same call / same line, dependency-adding, string-assembled output,
# node-removing, semgrep-prefiltered
QUICK = [
    "pixee:python/requests-verify",
    "pixee:python/add-requests-timeouts",
    "pixee:python/url-sandbox",
    "pixee:python/subprocess-shell-false",
    "pixee:python/sandbox-process-creation",
    "pixee:python/secure-random",
    "pixee:python/harden-pyyaml",
    "pixee:python/harden-pickle-load",
    "pixee:python/secure-tempfile",
    "pixee:python/lazy-logging",
    "pixee:python/fix-deprecated-logging-warn",
    "pixee:python/remove-debug-breakpoint",
    "pixee:python/use-generator",
    "pixee:python/unused-imports",
]
THOROUGH_EXTRA = [
    "pixee:python/fix-empty-sequence-comparison",
    "pixee:python/use-defusedxml",
    "pixee:python/order-imports",
    "pixee:python/use-walrus-if",
    "pixee:python/fix-file-resource-leak",
    "pixee:python/sql-parameterization",
    "pixee:python/flask-enable-csrf-protection",
    "pixee:python/fix-dataclass-defaults",
    "pixee:python/remove-module-global",
    "pixee:python/limit-readline",
    "pixee:python/safe-lxml-parsing",
    "pixee:python/safe-lxml-parser-defaults",
    "pixee:python/secure-flask-cookie",
    "pixee:python/jwt-decode-verify",
    "pixee:python/combine-startswith-endswith",
    "pixee:python/remove-unnecessary-f-str",
    "pixee:python/fix-mutable-params",
    "pixee:python/bad-lock-with-statement",
    "pixee:python/invert-boolean-check",
    "pixee:python/use-set-literal",
]


# a setup.py that is at once the preferred manifest (non-empty install_requires) and a source file several codemods rewrite:
# a dependency written into it by one codemod must survive a later codemod's edit of the same file
SETUP_PY = b'''import os
import pickle
import random

from setuptools import setup

BUILD = str(random.random())
SIZE = sum([len(p) for p in ("a", "b")])
# a dependency-adding codemod (fickling) has work in the manifest file itself
CACHE = pickle.load(open("build.cache", "rb")) if os.path.exists("build.cache") else None

setup(
    name="demo",
    version="0.1." + BUILD,
    install_requires=[
        "requests>=2",
        "pyyaml",
    ],
)
# a site of a semgrep-detected codemod BELOW the requirement list: a dependency written into the list moves it
TOKEN = str(random.random())
'''


def canonical_seed(codemod):
    seeds = [s for s in progspace.load_seeds() if s.codemod == codemod and s.kind == "trigger" and s.batchable]
    for s in seeds:
        if s.compiles:
            return s
    if seeds:
        return seeds[0]  # codemods whose triggers only pass the parser (e.g. a module-level `global`)
    raise core.HarnessError(f"no canonical seed for {codemod}")


def _concat(a: str, b: str) -> bytes | None:
    t = (a if a.endswith("\n") else a + "\n") + "\n" + b
    data = t.encode()
    return data if progspace.py_ok(data, True) or progspace.py_ok(data, False) else None


def project_for(k1, k2):
    s1, s2 = canonical_seed(k1), canonical_seed(k2)
    files = {
        "one.py": s1.input.encode(),
        "two.py": s2.input.encode(),
        "collide.py": COLLISION,
        "requirements.txt": MANIFEST,
        "setup.cfg": MANIFEST2,
        "setup.py": SETUP_PY,
        # a file no codemod can parse: every codemod that selects it must list it as failed, alone or in a batch
        "legacy.py": b"print 'python 2 only'\n",
    }
    ab, ba = _concat(s1.input, s2.input), _concat(s2.input, s1.input)
    if ab:
        files["ab.py"] = ab
    if ba:
        files["ba.py"] = ba
    return files


def lite(obs, k):
    rep = obs.reports[k]
    return {"exit": obs.exits[k], "tree": obs.after[k], "results": None if rep is None else rep.get("results"), "logs": obs.logs[k], "report": rep}


def pair_job(arg):
    k1, k2 = arg
    files = project_for(k1, k2)
    b = drive.run_inproc(drive.Job(files=files, argv=["{dir}", "--codemod-include", f"{k1},{k2}"]))
    c1 = drive.run_inproc(drive.Job(files=files, argv=["{dir}", "--codemod-include", k1]))
    if b.error or c1.error:
        raise core.HarnessError(b.error or c1.error)
    c2 = drive.run_inproc(drive.Job(files=c1.final, argv=["{dir}", "--codemod-include", k2]))
    if c2.error:
        raise core.HarnessError(c2.error)
    return {"pair": (k1, k2), "files": files, "batch": lite(b, 0), "chain": [lite(c1, 0), lite(c2, 0)]}


def pair_job_cli(arg):
    """The same history through the real console entry point (confirmation / replay)."""
    k1, k2 = arg
    files = project_for(k1, k2)
    b = drive.run_cli(drive.Job(files=files, argv=["{dir}", "--codemod-include", f"{k1},{k2}"]))
    c1 = drive.run_cli(drive.Job(files=files, argv=["{dir}", "--codemod-include", k1]))
    c2 = drive.run_cli(drive.Job(files=c1.final, argv=["{dir}", "--codemod-include", k2]))
    for o in (b, c1, c2):
        if o.error:
            raise core.HarnessError(o.error)
    return {"pair": (k1, k2), "files": files, "batch": lite(b, 0), "chain": [lite(c1, 0), lite(c2, 0)]}


def _rerun_project(k):
    files = project_for(k, k)
    # the same sites in places the default excludes keep out of a run: a second run must not start to see them
    files["conftest.py"] = COLLISION
    files["venv/lib/site-packages/vendored.py"] = COLLISION
    return files


def rerun_job(k):
    """P -K-> s1 -K-> s2 on the collision project (manifests included): the project-level fixed point of C07."""
    files = _rerun_project(k)
    o = drive.run_inproc(drive.Job(files=files, argv=["{dir}", "--codemod-include", k], runs=2))
    if o.error:
        raise core.HarnessError(o.error)
    return {"codemod": k, "files": files, "runs": [lite(o, 0), lite(o, 1)]}


def rerun_job_cli(k):
    files = _rerun_project(k)
    o = drive.run_cli(drive.Job(files=files, argv=["{dir}", "--codemod-include", k], runs=2))
    if o.error:
        raise core.HarnessError(o.error)
    return {"codemod": k, "files": files, "runs": [lite(o, 0), lite(o, 1)]}


# ordered triples: a codemod whose match is only scanned (declined) between two that rewrite, line-shifting rewriters before
# semgrep-detected ones, a dependency-adding codemod in every position
TRIPLE_QUICK = [
    "pixee:python/url-sandbox",
    "pixee:python/remove-debug-breakpoint",
    "pixee:python/bad-lock-with-statement",
    "pixee:python/harden-pyyaml",
    "pixee:python/secure-random",
]
TRIPLE_EXTRA = ["pixee:python/unused-imports", "pixee:python/lazy-logging", "pixee:python/harden-pickle-load"]


def triple_codemods(tier):
    return TRIPLE_QUICK if tier == "quick" else TRIPLE_QUICK + TRIPLE_EXTRA


def project_for_seq(ks):
    files = {
        "collide.py": COLLISION,
        "requirements.txt": MANIFEST,
        "setup.cfg": MANIFEST2,
        "setup.py": SETUP_PY,
        "legacy.py": b"print 'python 2 only'\n",
    }
    for i, k in enumerate(ks):
        files[f"s{i}.py"] = canonical_seed(k).input.encode()
    return files


def _seq_job(ks, runner):
    files = project_for_seq(ks)
    b = runner(drive.Job(files=files, argv=["{dir}", "--codemod-include", ",".join(ks)], runs=2))
    if b.error:
        raise core.HarnessError(b.error)
    chain, tree = [], files
    for k in ks:
        o = runner(drive.Job(files=tree, argv=["{dir}", "--codemod-include", k]))
        if o.error:
            raise core.HarnessError(o.error)
        chain.append(lite(o, 0))
        tree = o.final
    # batch_rerun: the same multi-codemod invocation again on its own output (C07)
    return {"seq": tuple(ks), "files": files, "batch": lite(b, 0), "batch_rerun": lite(b, 1), "chain": chain}


def seq_job(ks):
    return _seq_job(ks, drive.run_inproc)


def seq_job_cli(ks):
    return _seq_job(ks, drive.run_cli)


def explore_triples(tier, seed=0):
    def compute():
        t0 = time.time()
        triples = list(itertools.permutations(triple_codemods(tier), 3))
        res = drive.pmap("cmverif.seqspace:seq_job", drive.seed_rotate(triples, seed))
        return {"triples": {r["seq"]: r for r in res}, "wall": time.time() - t0}

    val, hit = cache.cached(f"seqspace-triples-{tier}", compute)
    return val["triples"], hit, val["wall"]


# ---- SAST-driven codemods in one run: their findings name lines of the ORIGINAL files (the result files are not refreshed) ----
DENSE_SONAR = {
    # sites of two codemods on neighbouring lines: the first one's edit changes the number of lines right below / above the other's
    "src": "import random\nimport tempfile\n\n\ndef f():\n    alpha = random.random()\n    name = tempfile.mktemp()\n    omega = random.random()\n    return alpha, name, omega\n",
    "findings": [("python:S2245", 6, 12, 27), ("python:S5445", 7, 11, 28)],
}


def sast_seeds(tool):
    out = {}
    for sd in progspace.load_seeds():
        if sd.tool == tool and sd.kind == "trigger" and sd.batchable and sd.compiles:
            out.setdefault(sd.codemod, sd)
    return out


def sast_pairs(tier):
    sonar = sorted(sast_seeds("sonar"))
    pairs = [("sonar", a, b) for a, b in itertools.permutations(sonar, 2)]
    if tier == "quick":
        # every codemod first and second at least once with each of the line-count changing ones
        movers = {"sonar:python/secure-tempfile", "sonar:python/secure-random", "sonar:python/django-receiver-on-top", "sonar:python/remove-assertion-in-pytest-raises",
                  "sonar:python/django-model-without-dunder-str", "sonar:python/fix-missing-self-or-cls", "sonar:python/exception-without-raise"}
        pairs = [p for p in pairs if p[1] in movers or p[2] in movers]
    else:
        sg = sorted(sast_seeds("semgrep"))
        pairs += [("semgrep", a, b) for a, b in itertools.permutations(sg, 2)]
    return pairs


def sast_pair_job(arg):
    from . import resultfiles

    tool, k1, k2 = arg
    seeds = sast_seeds(tool)
    s1, s2 = seeds[k1], seeds[k2]
    files, docs = {}, []
    for name, (x, y) in (("ab.py", (s1, s2)), ("ba.py", (s2, s1))):
        top = x.input if x.input.endswith("\n") else x.input + "\n"
        data = (top + y.input).encode()  # no blank line in between: the second seed's first line follows the first seed's last
        if not progspace.py_ok(data, True):
            continue
        files[name] = data
        docs += [resultfiles.relocate(tool, x.results, name), resultfiles.relocate(tool, y.results, name, dline=top.count("\n"))]
    if tool == "sonar":
        files["dense.py"] = DENSE_SONAR["src"].encode()
        docs.append({"hotspots" if r == "python:S2245" else "issues": [] for r, *_ in DENSE_SONAR["findings"]})
        for r, line, c0, c1 in DENSE_SONAR["findings"]:
            e = {"status": "TO_REVIEW" if r == "python:S2245" else "OPEN", "component": "proj:dense.py", "key": f"D{line}",
                 "textRange": {"startLine": line, "endLine": line, "startOffset": c0, "endOffset": c1}}
            e["ruleKey" if r == "python:S2245" else "rule"] = r
            docs[-1]["hotspots" if r == "python:S2245" else "issues"].append(e)
    argv_res, res = resultfiles.argv_and_files(tool, docs)
    ks = [k1, k2]
    b = drive.run_inproc(drive.Job(files=files, argv=["{dir}", "--codemod-include", ",".join(ks)] + argv_res, results=res))
    if b.error:
        raise core.HarnessError(b.error)
    chain, tree = [], files
    for k in ks:
        o = drive.run_inproc(drive.Job(files=tree, argv=["{dir}", "--codemod-include", k] + argv_res, results=res))
        if o.error:
            raise core.HarnessError(o.error)
        chain.append(lite(o, 0))
        tree = o.final
    return {"seq": tuple(ks), "tool": tool, "files": files, "batch": lite(b, 0), "chain": chain}


def explore_sast_pairs(tier, seed=0):
    def compute():
        t0 = time.time()
        res = drive.pmap("cmverif.seqspace:sast_pair_job", drive.seed_rotate(sast_pairs(tier), seed))
        return {"pairs": {(r["tool"],) + r["seq"]: r for r in res}, "wall": time.time() - t0}

    val, hit = cache.cached(f"seqspace-sast-{tier}", compute)
    return val["pairs"], hit, val["wall"]


def default_set_project():
    """One canonical trigger file per batchable pixee codemod + the collision file, manifests and an unparseable file."""
    files = {
        "collide.py": COLLISION,
        "requirements.txt": MANIFEST,
        "setup.cfg": MANIFEST2,
        "setup.py": SETUP_PY,
        "legacy.py": b"print 'python 2 only'\n",
    }
    seen = set()
    for sd in progspace.load_seeds():
        if sd.kind == "trigger" and sd.origin == "pixee" and sd.batchable and sd.compiles and sd.codemod not in seen:
            seen.add(sd.codemod)
            files[f"src/{sd.codemod.split('/')[-1].replace('-', '_')}.py"] = sd.input.encode()
    return files


def default_set_job(extra_argv=()):
    """The whole default find-and-fix set: one invocation vs the chain of single-codemod invocations in the executed order."""
    files = default_set_project()
    b = drive.run_inproc(drive.Job(files=files, argv=["{dir}"] + list(extra_argv)))
    if b.error:
        raise core.HarnessError(b.error)
    order = [r["codemod"] for r in (b.report or {}).get("results", [])]
    chain, tree = [], files
    for k in order:
        o = drive.run_inproc(drive.Job(files=tree, argv=["{dir}", "--codemod-include", k] + list(extra_argv)))
        if o.error:
            raise core.HarnessError(o.error)
        chain.append(lite(o, 0))
        tree = o.final
    for c in chain:
        c.pop("logs", None)
        c.pop("report", None)
    return {"seq": tuple(order), "files": files, "batch": lite(b, 0), "chain": chain}


def explore_default_set(tier, seed=0):
    def compute():
        t0 = time.time()
        jobs = [()] if tier == "quick" else [(), ("--max-workers", "4")]
        res = drive.pmap("cmverif.seqspace:default_set_job", jobs)
        return {"runs": res, "wall": time.time() - t0}

    val, hit = cache.cached(f"seqspace-default-set-{tier}", compute)
    return val["runs"], hit, val["wall"]


# ---- the manifest is the ONLY file both codemods meet on: K1 adds a dependency (written into setup.py by the dependency manager,
# not by K1's own pipeline), K2 has its only sites in setup.py, above and below the requirement list
DEP_ADDING = ["pixee:python/url-sandbox", "pixee:python/sandbox-process-creation", "pixee:python/use-defusedxml",
              "pixee:python/flask-enable-csrf-protection", "pixee:python/harden-pickle-load"]
IN_SETUP_PY = ["pixee:python/secure-random", "pixee:python/use-generator", "pixee:python/harden-pickle-load"]


SAME_DEP = ("pixee:python/url-sandbox", "pixee:python/sandbox-process-creation")  # both need the package `security`


def manifest_pairs(tier):
    from . import manifests_space as ms

    out = [(a, b) for a in DEP_ADDING for b in IN_SETUP_PY if a != b] + ([(b, a) for a in DEP_ADDING for b in IN_SETUP_PY if a != b] if tier == "thorough" else [])
    # two codemods that need the SAME package, every requirements.txt content of C14's alphabet (one-line sequences; hash-pinned,
    # markers, extras, -r / -e lines ...) and the other manifest kinds: written once in one invocation, once in the chain
    for label, _ in ms.req_texts(1):
        out += [SAME_DEP + ("requirements.txt:" + label,), SAME_DEP[::-1] + ("requirements.txt:" + label,)]
    for kind in ("setup.cfg", "pyproject.toml", "setup.py"):
        for label in ms.KINDS[kind][0]:
            out.append(SAME_DEP + (f"{kind}:{label}",))
    return out


def _manifest_files(arg):
    from . import manifests_space as ms

    k1, k2, *rest = arg
    if not rest:
        return {"app/one.py": canonical_seed(k1).input.encode(), "setup.py": SETUP_PY, "README.txt": b"demo\n"}
    kind, label = rest[0].split(":", 1)
    text = dict(ms.req_texts(1))[label] if kind == "requirements.txt" else ms.KINDS[kind][0][label]
    return {"app/one.py": canonical_seed(k1).input.encode(), "app/two.py": canonical_seed(k2).input.encode(), kind: text.encode()}


def manifest_pair_job(arg):
    return dict(_seq_job_on(_manifest_files(arg), list(arg[:2]), drive.run_inproc), pair=tuple(arg))


def manifest_pair_job_cli(arg):
    return dict(_seq_job_on(_manifest_files(arg), list(arg[:2]), drive.run_cli), pair=tuple(arg))


def _seq_job_on(files, ks, runner):
    b = runner(drive.Job(files=files, argv=["{dir}", "--codemod-include", ",".join(ks)]))
    if b.error:
        raise core.HarnessError(b.error)
    chain, tree = [], files
    for k in ks:
        o = runner(drive.Job(files=tree, argv=["{dir}", "--codemod-include", k]))
        if o.error:
            raise core.HarnessError(o.error)
        chain.append(lite(o, 0))
        tree = o.final
    return {"files": files, "batch": lite(b, 0), "chain": chain}


def explore_manifest_pairs(tier, seed=0):
    def compute():
        t0 = time.time()
        res = drive.pmap("cmverif.seqspace:manifest_pair_job", drive.seed_rotate(manifest_pairs(tier), seed))
        return {"pairs": {r["pair"]: r for r in res}, "wall": time.time() - t0}

    val, hit = cache.cached(f"seqspace-manifest-{tier}", compute)
    return val["pairs"], hit, val["wall"]


def codemods(tier):
    return QUICK if tier == "quick" else QUICK + THOROUGH_EXTRA


def explore_pairs(tier, seed=0):
    def compute():
        t0 = time.time()
        cms = codemods(tier)
        pairs = list(itertools.permutations(cms, 2))
        res = drive.pmap("cmverif.seqspace:pair_job", drive.seed_rotate(pairs, seed))
        return {"pairs": {r["pair"]: r for r in res}, "wall": time.time() - t0}

    val, hit = cache.cached(f"seqspace-{tier}", compute)
    return val["pairs"], hit, val["wall"]
