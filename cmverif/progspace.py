"""The program space: pinned seed corpus x context dimensions (DESIGN.md 2.3).

A program is (seed, context vector).  Dimension value 0 is the canonical rendering; the explorer visits all
programs with at most `b` non-canonical coordinates.  Every mutant is validated by CPython (compile / ast.parse,
ast.dump equality for layout-only mutators); a rejected mutant is a generator limit that is counted, never an
alarm.
"""
from __future__ import annotations

import ast
import itertools
import json
import re
import warnings
from dataclasses import dataclass, field

from . import core

warnings.filterwarnings("ignore", category=SyntaxWarning)


# --------------------------------------------------------------------------- seeds


@dataclass
class Seed:
    id: str
    codemod: str
    kind: str
    file: str
    siblings: list
    input: str
    parses: bool
    compiles: bool
    tool: str | None = None
    results: dict | None = None
    extra: bool = False

    @property
    def batchable(self):
        return self.file == "code.py" and not self.siblings

    @property
    def origin(self):
        return self.codemod.split(":")[0]


_SEEDS = None

SIBLING_CONTENT = {"manage.py": b"#!/usr/bin/env python\nimport sys\n"}


def load_seeds() -> list[Seed]:
    global _SEEDS
    if _SEEDS is None:
        out = []
        for fn, extra in (("seeds.jsonl", False), ("seeds_extra.jsonl", True)):
            for line in (core.VERIF / "spaces" / fn).read_text().splitlines():
                if not line.strip():
                    continue
                d = json.loads(line)
                res = d.get("results")
                out.append(
                    Seed(
                        id=d["id"], codemod=d["codemod"], kind=d["kind"], file=d["file"], siblings=d.get("siblings") or [],
                        input=d["input"], parses=d.get("parses", True), compiles=d.get("compiles", True),
                        tool=d.get("tool"), results=json.loads(res) if isinstance(res, str) else res, extra=extra,
                    )
                )
        _SEEDS = out
    return _SEEDS


# --------------------------------------------------------------------------- variants and mutators


@dataclass
class Variant:
    text: str  # source as str (before the byte-level stage)
    raw: bytes | None = None  # set by byte-level mutators
    dline: int = 0
    dcol: int = 0
    shift_ok: bool = True  # the uniform (dline, dcol) shift describes where every original line went

    def bytes(self):
        return self.raw if self.raw is not None else self.text.encode("utf-8")


def _indent(text, pre="    "):
    return "".join((pre + l if l.strip() else l) for l in text.splitlines(True))


def _ensure_nl(text):
    return text if text.endswith("\n") or not text else text + "\n"


NEST = {
    "def": ("def _ctx():\n", 1, ""),
    "async": ("async def _ctx():\n", 1, ""),
    "method": ("class _Ctx:\n    def m(self):\n", 2, ""),
    "if": ("if True:\n", 1, ""),
    "try": ("try:\n", 1, "except Exception:\n    raise\nfinally:\n    pass\n"),
    "for": ("for _i in range(1):\n", 1, "else:\n    pass\n"),
    "with": ("with open(__file__) as _fh:\n", 1, ""),
    "nested": ("def _outer():\n    def _inner():\n", 2, "    return _inner\n"),
}


def _split_head(text):
    """(head, tail): head = leading docstring / import statements (kept at module level)."""
    try:
        mod = ast.parse(text)
    except SyntaxError:
        return None
    first = None
    for i, st in enumerate(mod.body):
        is_doc = i == 0 and isinstance(st, ast.Expr) and isinstance(getattr(st, "value", None), ast.Constant) and isinstance(st.value.value, str)
        if isinstance(st, (ast.Import, ast.ImportFrom)) or is_doc:
            continue
        first = st
        break
    if first is None:
        return None
    ln = min([first.lineno] + [d.lineno for d in getattr(first, "decorator_list", [])])
    lines = text.splitlines(True)
    head, tail = "".join(lines[: ln - 1]), "".join(lines[ln - 1 :])
    if not head.strip():
        return None
    return head, tail


def m_nest(kind):
    hdr, depth, tail = NEST[kind]

    def f(v: Variant):
        body = _indent(_ensure_nl(v.text), "    " * depth)
        if not body.strip():
            return None
        return Variant(hdr + body + tail, None, v.dline + depth, v.dcol + 4 * depth, v.shift_ok)

    return f


def m_nesttail(kind):
    hdr, depth, tail = NEST[kind]

    def f(v: Variant):
        sp = _split_head(v.text)
        if not sp:
            return None
        head, rest = sp
        return Variant(head + hdr + _indent(_ensure_nl(rest), "    " * depth) + tail, None, v.dline, v.dcol, False)

    return f


def m_prefix(pre):
    n = pre.count("\n")

    def f(v: Variant):
        return Variant(pre + v.text, None, v.dline + n, v.dcol, v.shift_ok)

    return f


def m_suffix(post, ensure_nl=True):
    def f(v: Variant):
        t = _ensure_nl(v.text) if ensure_nl else v.text
        return Variant(t + post, None, v.dline, v.dcol, v.shift_ok)

    return f


def m_mult(n):
    def f(v: Variant):
        sp = _split_head(v.text)
        head, rest = sp if sp else ("", v.text)
        rest = _ensure_nl(rest)
        return Variant(head + rest * n, None, v.dline, v.dcol, False)

    return f


_LEAD = re.compile(r"^((?:    )+)", re.M)


def m_reindent(unit):
    def f(v: Variant):
        if "\t" in v.text:
            return None
        t = _LEAD.sub(lambda m: unit * (len(m.group(1)) // 4), v.text)
        if t == v.text:
            return None
        return Variant(t, None, v.dline, v.dcol, False)

    return f


ENCODINGS = {"latin1": ("latin-1", "caf\u00e9 \u00f1and\u00fa"), "shiftjis": ("shift_jis", "\u65e5\u672c\u8a9e\u30c6\u30ad\u30b9\u30c8"), "cp1252": ("cp1252", "\u00c1rbol \u20ac")}


def m_eol(kind):
    def f(v: Variant):
        t = v.text
        if "\r" in t:
            return None
        if kind == "crlf":
            b = t.replace("\n", "\r\n").encode("utf-8")
        elif kind == "cr":
            b = t.replace("\n", "\r").encode("utf-8")
        elif kind == "nofinal":
            if not t.endswith("\n"):
                return None
            b = t.rstrip("\n").encode("utf-8")
        elif kind == "bom":
            b = b"\xef\xbb\xbf" + t.encode("utf-8")
        elif kind == "mixed-cr":
            # an LF file in which one line (the first) ends in a lone CR - a line end for Python, not for a unified diff
            if t.count("\n") < 2:
                return None
            b = t.replace("\n", "\r", 1).encode("utf-8")
        elif kind in ENCODINGS:
            # a source that is not UTF-8: coding cookie (PEP 263) + a non-ASCII literal, stored in the declared encoding
            cookie, literal = ENCODINGS[kind]
            if not t.endswith("\n") or t.startswith("#!") or not t.isascii():
                return None
            t2 = f"# -*- coding: {cookie} -*-\n" + t + f"ENC_MARK = \"{literal}\"\n"
            return Variant(t2, t2.encode(cookie), v.dline + 1, v.dcol, v.shift_ok)
        else:
            raise ValueError(kind)
        return Variant(t, b, v.dline, v.dcol, v.shift_ok)

    return f


# name -> (group, stage, function, ast_preserving)
MUTATORS: dict[str, tuple] = {}


def _reg(name, group, stage, fn, ast_pres=False):
    MUTATORS[name] = (group, stage, fn, ast_pres)


for _k in NEST:
    _reg(f"nest:{_k}", "nest", 2, m_nest(_k))
for _k in ("def", "method", "if", "try"):
    _reg(f"nesttail:{_k}", "nest", 2, m_nesttail(_k))
_reg("pre:docstring-future", "prelude", 3, m_prefix('"""Module docstring."""\nfrom __future__ import annotations\n'))
_reg("pre:comment-blank", "prelude", 3, m_prefix("# leading comment\n\n"))
_reg("pre:shebang-cookie", "prelude", 3, m_prefix("#!/usr/bin/env python3\n# -*- coding: utf-8 -*-\n"))
_reg("pre:nonascii", "prelude", 3, m_prefix('# ünïcödé ✓\nπ = "naïve ☃"\n'))
_reg("pre:formfeed", "prelude", 3, m_prefix("\x0c\n"))
# a function that imports, locally and unaliased, the modules and names codemods start using: a module-level use elsewhere
# in the file is NOT covered by these bindings
_reg("pre:local-imports", "prelude", 3, m_prefix(
    "def _local_imports():\n"
    "    import secrets, math, asyncio, ssl, urllib3, yaml, flask, fickling, lxml.etree, defusedxml, pathlib, sys, typing\n"
    "    from datetime import timezone\n"
    "    from dataclasses import field\n"
    "    from typing import Optional\n"
    "    from pathlib import Path\n"
    "    from security import safe_requests, safe_command\n"
    "    import defusedxml.ElementTree, defusedxml.sax, defusedxml.minidom\n"
    "    return None\n\n\n"))
_reg("post:def", "postlude", 3, m_suffix("\n\ndef _trailer(a, b=2):\n    return a\n"))
_reg("post:comment-noeol", "postlude", 3, m_suffix("# end", True))
_reg("mult:2", "mult", 1, m_mult(2))
_reg("mult:3", "mult", 1, m_mult(3))
_reg("indent:tab", "indent", 4, m_reindent("\t"), True)
_reg("indent:2sp", "indent", 4, m_reindent("  "), True)
_reg("eol:crlf", "eol", 9, m_eol("crlf"), True)
_reg("eol:cr", "eol", 9, m_eol("cr"), True)
_reg("eol:nofinal", "eol", 9, m_eol("nofinal"), True)
_reg("eol:bom", "eol", 9, m_eol("bom"), True)
_reg("eol:mixed-cr", "eol", 9, m_eol("mixed-cr"), True)
for _k in ENCODINGS:
    _reg(f"enc:{_k}", "eol", 9, m_eol(_k), False)


def register_structural():
    """libcst based mutators (import style, call layout, arguments) live in progspace_cst."""
    try:
        from . import progspace_cst  # noqa: F401
    except ModuleNotFoundError:
        pass


# --------------------------------------------------------------------------- validation


def py_ok(data: bytes, compile_valid: bool) -> bool:
    """Is this a valid *input*?  compile() for compile-valid seeds, ast.parse for parser-only ones."""
    try:
        with warnings.catch_warnings():
            warnings.simplefilter("ignore")
            if compile_valid:
                compile(data, "<prog>", "exec", dont_inherit=True)
            else:
                ast.parse(data)
        return True
    except (SyntaxError, ValueError, UnicodeDecodeError, RecursionError, MemoryError):
        return False


def ast_sig(data: bytes):
    try:
        with warnings.catch_warnings():
            warnings.simplefilter("ignore")
            return ast.dump(ast.parse(data))
    except Exception:
        return None


# --------------------------------------------------------------------------- programs


@dataclass
class Program:
    pid: str
    seed: Seed
    src: bytes
    devs: tuple
    dline: int = 0
    dcol: int = 0
    shift_ok: bool = True

    @property
    def ndev(self):
        return len(self.devs)

    def results_doc(self, path):
        from . import resultfiles

        if not self.seed.tool:
            return None
        return resultfiles.relocate(self.seed.tool, self.seed.results, path, self.dline, self.dcol)


@dataclass
class SpaceStats:
    seeds: int = 0
    programs: int = 0
    rejected: int = 0
    inapplicable: int = 0
    duplicates: int = 0
    by_dev: dict = field(default_factory=dict)


def render(seed: Seed, devs: tuple) -> Variant | None | str:
    """Apply mutators in stage order.  None = inapplicable, "rejected" = failed validation."""
    v = Variant(seed.input)
    for name in sorted(devs, key=lambda n: (MUTATORS[n][1], n)):
        group, stage, fn, ast_pres = MUTATORS[name]
        before = v
        v = fn(v)
        if v is None:
            return None
        if ast_pres:
            a, b = ast_sig(before.bytes()), ast_sig(v.bytes())
            if a is None or a != b:
                return "rejected"
    return v


def programs_for(seeds, max_dev: int, mutators=None, pair_groups=None, stats: SpaceStats | None = None, sast_shift_only=True):
    """All programs with <= max_dev deviations (one value per dimension group), de-duplicated by bytes."""
    names = sorted(mutators if mutators is not None else MUTATORS)
    stats = stats if stats is not None else SpaceStats()
    out = []
    for seed in seeds:
        stats.seeds += 1
        seen = set()
        combos = [()]
        for k in range(1, max_dev + 1):
            for c in itertools.combinations(names, k):
                groups = [MUTATORS[n][0] for n in c]
                if len(set(groups)) != len(groups):
                    continue
                if pair_groups is not None and k >= 2 and not all(
                    frozenset(p) in pair_groups for p in itertools.combinations(groups, 2)
                ):
                    continue
                combos.append(c)
        for c in combos:
            v = render(seed, c)
            if v is None:
                stats.inapplicable += 1
                continue
            if v == "rejected":
                stats.rejected += 1
                continue
            if seed.tool and sast_shift_only and not v.shift_ok:
                stats.inapplicable += 1
                continue
            data = v.bytes()
            if c and not py_ok(data, seed.compiles):
                stats.rejected += 1
                continue
            if not c and not py_ok(data, seed.compiles):
                # the seed itself must be a valid input: corpus is pinned, so this is a harness error
                raise core.HarnessError(f"seed {seed.id} is not a valid input")
            if data in seen:
                stats.duplicates += 1
                continue
            seen.add(data)
            pid = seed.id + ("+" + "+".join(c) if c else "")
            out.append(Program(pid, seed, data, c, v.dline, v.dcol, v.shift_ok))
            stats.programs += 1
            stats.by_dev[len(c)] = stats.by_dev.get(len(c), 0) + 1
    return out
