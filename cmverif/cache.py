"""Exploration cache shared by the checks that monitor the same exploration (C01, C02, C03, C07, C16, C18).

The key is a hash of every byte that determines the exploration: all files under <repo>/src, the harness
sources, the pinned corpus and the exploration parameters.  A change to any of them is a different key, so a
cached exploration is always an exploration of the tree being checked.  The cache is an optimisation only:
when it is absent the exploration is executed.
"""
from __future__ import annotations

import fcntl
import hashlib
import os
import pickle
import time
from pathlib import Path

from . import core

_TREE_HASH = None


def tree_hash() -> str:
    global _TREE_HASH
    if _TREE_HASH is None:
        h = hashlib.sha256()
        files = []
        for p in sorted((core.REPO / "src").rglob("*")):
            if p.is_file() and "__pycache__" not in p.parts and not p.name.endswith(".pyc"):
                files.append((str(p.relative_to(core.REPO)), p))
        # the harness modules that determine what is explored and how (monitors and oracles do not)
        for name in ("progspace.py", "progspace_cst.py", "batch.py", "drive.py", "resultfiles.py", "seqspace.py", "progcheck.py", "manifests_space.py", "sched.py", "checks/c11a.py"):
            files.append((name, core.VERIF / "cmverif" / name))
        for p in sorted((core.VERIF / "spaces").glob("*.jsonl")):
            files.append((p.name, p))
        for rel, p in files:
            h.update(rel.encode() + b"\0")
            h.update(hashlib.sha256(p.read_bytes()).digest())
        for v in ("PYTHONHASHSEED",):
            h.update(f"{v}={os.environ.get(v)}".encode())
        _TREE_HASH = h.hexdigest()[:24]
    return _TREE_HASH


def cache_dir() -> Path:
    base = Path("/dev/shm") if os.access("/dev/shm", os.W_OK) else Path(os.environ.get("TMPDIR", "/tmp"))
    d = base / "cmverif-cache"
    d.mkdir(exist_ok=True)
    return d


def _prune(d: Path, keep_prefix: str):
    now = time.time()
    for p in d.glob("*.pkl"):
        try:
            if not p.name.startswith(keep_prefix) and now - p.stat().st_mtime > 1800:
                p.unlink()
        except OSError:
            pass


def cached(name: str, compute):
    """-> (value, hit).  Concurrent callers with the same key wait for the first one."""
    if os.environ.get("CMVERIF_NO_CACHE"):
        return compute(), False
    key = f"{tree_hash()}-{name}"
    d = cache_dir()
    path = d / f"{key}.pkl"
    with open(d / f"{key}.lock", "w") as lk:
        fcntl.flock(lk, fcntl.LOCK_EX)
        try:
            if path.exists():
                try:
                    with open(path, "rb") as f:
                        return pickle.load(f), True
                except Exception:
                    path.unlink(missing_ok=True)
            val = compute()
            tmp = path.with_suffix(f".tmp{os.getpid()}")
            with open(tmp, "wb") as f:
                pickle.dump(val, f, protocol=pickle.HIGHEST_PROTOCOL)
            os.replace(tmp, path)
            _prune(d, tree_hash())
            return val, False
        finally:
            fcntl.flock(lk, fcntl.LOCK_UN)
