"""C09 - a multi-codemod run equals running the same codemods one at a time, in order.

History BFS over codemod sequences on collision projects (seqspace): for every ordered pair (K1, K2) of the
interacting codemods, the state reached by one invocation `--codemod-include K1,K2` is compared with the state
reached by the chain of two invocations, and the per-codemod results of the batch report with the reports of the
single runs.  The whole default set (one invocation vs the chain of single-codemod invocations) is one more history.
"""
from __future__ import annotations

import json

from .. import core, drive, seqspace
from ..core import Violation

PROP = "C09"


def _res_for(results, codemod):
    for r in results or []:
        if r["codemod"] == codemod:
            return r
    return None


def _norm_result(r):
    if r is None:
        return None
    r = json.loads(json.dumps(r))
    r["failedFiles"] = sorted(f.split("/proj/", 1)[-1] for f in r.get("failedFiles") or [])
    return r


def _first_diff(a, b, path="$"):
    if type(a) != type(b):
        return path
    if isinstance(a, dict):
        for k in sorted(set(a) | set(b)):
            if k not in a or k not in b:
                return f"{path}.{k}"
            d = _first_diff(a[k], b[k], f"{path}.{k}")
            if d:
                return d
        return None
    if isinstance(a, list):
        if len(a) != len(b):
            return f"{path}[len]"
        for i, (x, y) in enumerate(zip(a, b)):
            d = _first_diff(x, y, f"{path}[{i}]")
            if d:
                return d
        return None
    return None if a == b else path


def judge(rec):
    ks = list(rec["pair"]) if "pair" in rec else list(rec["seq"])
    b, chain = rec["batch"], rec["chain"]
    if b["exit"] != 0 or any(c["exit"] != 0 for c in chain):
        if (b["exit"] == 0) != all(c["exit"] == 0 for c in chain):
            yield "exit-differs", f"batch exit {b['exit']} vs chain exits {[c['exit'] for c in chain]}"
        return
    tb, tc = b["tree"], chain[-1]["tree"]
    diff_files = sorted(p for p in set(tb) | set(tc) if tb.get(p) != tc.get(p))
    if diff_files:
        p = diff_files[0]
        yield f"tree-differs:{p}", (
            f"files differ between one run and the chain: {diff_files}; {p}: batch={tb.get(p)!r:.300} chain={tc.get(p)!r:.300}"
        )
    for i, (k, single) in enumerate(zip(ks, chain)):
        rb = _norm_result(_res_for(b["results"], k))
        rs = _norm_result(_res_for(single["results"], k))
        d = _first_diff(rb, rs)
        if d:
            d_generic = d.split("[")[0] + ("[..]" + d.split("]", 1)[1] if "]" in d else "")
            yield f"result-{i + 1}-differs:{d_generic[:60]}", f"result of {k} in the batch report differs from its single-run report at {d}"


def explore(tier, seed):
    pairs, hit, wall = seqspace.explore_pairs(tier, seed)
    cands = {}
    states = set()
    equal = 0
    for (k1, k2), rec in sorted(pairs.items()):
        states.add(core.tree_state_id(rec["files"]))
        for t in (rec["batch"]["tree"], rec["chain"][0]["tree"], rec["chain"][1]["tree"]):
            states.add(core.tree_state_id({k: v for k, v in t.items() if isinstance(v, bytes)}))
        found = list(judge(rec))
        equal += not found
        for kind, detail in found:
            cands.setdefault(f"seq|{k1}>{k2}|{kind}", ({"sequence": True, "pair": [k1, k2], "kind": kind}, detail))
    triples, thit, twall = seqspace.explore_triples(tier, seed)
    tequal = 0
    for ks, rec in sorted(triples.items()):
        states.add(core.tree_state_id(rec["files"]))
        for t in [rec["batch"]["tree"]] + [c["tree"] for c in rec["chain"]]:
            states.add(core.tree_state_id({k: v for k, v in t.items() if isinstance(v, bytes)}))
        found = list(judge(rec))
        tequal += not found
        for kind, detail in found:
            cands.setdefault(f"seq|{'>'.join(ks)}|{kind}", ({"sequence": True, "seq": list(ks), "kind": kind}, detail))
    # pairs that meet on the manifest only
    mpairs, mhit, _ = seqspace.explore_manifest_pairs(tier, seed)
    for key, rec in sorted(mpairs.items()):
        k1, k2 = key[:2]
        states.add(core.tree_state_id(rec["files"]))
        for t in [rec["batch"]["tree"]] + [c["tree"] for c in rec["chain"]]:
            states.add(core.tree_state_id({k: v for k, v in t.items() if isinstance(v, bytes)}))
        for kind, detail in judge(dict(rec, pair=(k1, k2))):
            where = "manifest-only" if len(key) == 2 else "same-dependency:" + key[2]
            cands.setdefault(f"seq|{where}|{k1}>{k2}|{kind}", ({"sequence": True, "manifest_pair": list(key), "kind": kind}, detail))
    # SAST-driven pairs (result files unchanged between the chained invocations, as in the one invocation)
    spairs, shit, swall = seqspace.explore_sast_pairs(tier, seed)
    sequal = 0
    for key, rec in sorted(spairs.items()):
        states.add(core.tree_state_id(rec["files"]))
        for t in [rec["batch"]["tree"]] + [c["tree"] for c in rec["chain"]]:
            states.add(core.tree_state_id({k: v for k, v in t.items() if isinstance(v, bytes)}))
        found = list(judge(rec))
        sequal += not found
        for kind, detail in found:
            cands.setdefault(f"seq|{'>'.join(rec['seq'])}|{kind}", ({"sequence": True, "sast": list(key), "kind": kind}, detail))
    # the whole default set: one invocation vs the chain of single-codemod invocations in the executed order
    druns, dhit, dwall = seqspace.explore_default_set(tier, seed)
    dlen = 0
    for i, rec in enumerate(druns):
        dlen = len(rec["seq"])
        states.add(core.tree_state_id(rec["files"]))
        for t in [rec["batch"]["tree"]] + [c["tree"] for c in rec["chain"]]:
            states.add(core.tree_state_id({k: v for k, v in t.items() if isinstance(v, bytes)}))
        for kind, detail in judge(rec):
            if kind.startswith("result-"):
                # name the codemod, not its position in the (registry dependent) sequence
                idx = int(kind.split("-")[1]) - 1
                kind = f"result-differs:{rec['seq'][idx]}"
            cands.setdefault(f"seq|default-set|{kind}", ({"sequence": True, "default_set": i, "kind": kind}, detail))
    known_open = {k["signature"] for k in core.load_known() if k["property"] == PROP and k["status"] == "open"}
    new = [(sig, c) for sig, c in sorted(cands.items()) if sig not in known_open]
    repro = drive.confirm_replays("cmverif.checks.c09", [c[0] for _, c in new])
    violations, divergence = [], []
    for (sig, (rp, detail)), ok in zip(new, repro):
        if ok:
            violations.append(Violation(PROP, sig, detail[:600], rp, 2))
        else:
            divergence.append(sig)
    for sig, (rp, detail) in sorted(cands.items()):
        if sig in known_open:
            violations.append(Violation(PROP, sig, detail[:600], rp, 2))
    changed_by_both = sum(1 for r in pairs.values() if r["chain"][0]["tree"] != r["files"] and r["chain"][1]["tree"] != r["chain"][0]["tree"])
    coverage = {
        "states": len(states),
        "transitions": 3 * len(pairs) + 4 * len(triples) + 3 * len(spairs) + 3 * len(mpairs) + len(druns) * (dlen + 1),
        "manifest_only_pairs": len(mpairs),
        "sast_ordered_pairs": len(spairs),
        "sast_pairs_with_equal_outcome": sequal,
        "sast_cache_hit": shit,
        "default_set_histories": {"runs": len(druns), "codemods_in_sequence": dlen, "cache_hit": dhit, "wall_s": round(dwall, 1)},
        "traces_validated_against_impl": len(pairs) + len(triples) + 6 * len(new),
        "ordered_triples": len(triples),
        "triples_with_equal_outcome": tequal,
        "triple_codemods": seqspace.triple_codemods(tier),
        "triple_cache_hit": thit,
        "exhaustive": True,
        "samples": [{"pair": list(p), "files": sorted(r["files"]), "batch_changed": sorted(k for k in r["files"] if r["batch"]["tree"].get(k) != r["files"][k])} for p, r in sorted(pairs.items())[:2]],
        "ordered_pairs": len(pairs),
        "pairs_with_equal_outcome": equal,
        "pairs_where_both_codemods_changed_the_tree": changed_by_both,
        "codemods": seqspace.codemods(tier),
        "cache_hit": hit,
        "exploration_wall_s": round(wall, 1),
        "cli_divergence": divergence,
        "rule": "state = project tree (content hash); transition = one invocation; every ordered pair: D -K1,K2-> s vs D -K1-> s1 -K2-> s2; tree(s) == tree(s2) and result_i(batch) == result(single run i)",
    }
    assumptions = [
        "collision projects: canonical seed of each codemod alone and concatenated in both orders, a shared collision file rewritten by many codemods on the same lines, and a requirements.txt so that dependency-adding codemods meet on one manifest",
        "failedFiles are compared as project-relative paths",
    ]
    return "model_checking", coverage, violations, assumptions


def replay(rp):
    if "manifest_pair" in rp:
        rec = seqspace.manifest_pair_job_cli(tuple(rp["manifest_pair"]))
        found = list(judge(dict(rec, pair=tuple(rp["manifest_pair"][:2]))))
        return (rp["kind"] not in {k for k, _ in found}), "\n".join(f"{k}: {d}" for k, d in found) or "one run == chain of single runs"
    if "sast" in rp:
        rec = seqspace.sast_pair_job(tuple(rp["sast"]))
        found = list(judge(rec))
        return (rp["kind"] not in {k for k, _ in found}), "\n".join(f"{k}: {d}" for k, d in found) or "one run == chain of single runs"
    if "default_set" in rp:
        rec = seqspace.default_set_job(("--max-workers", "4") if rp["default_set"] else ())
        found = []
        for kind, detail in judge(rec):
            if kind.startswith("result-"):
                kind = f"result-differs:{rec['seq'][int(kind.split('-')[1]) - 1]}"
            found.append((kind, detail))
        return (rp["kind"] not in {k for k, _ in found}), "\n".join(f"{k}: {d}" for k, d in found) or "one run == chain of single runs"
    rec = seqspace.seq_job_cli(tuple(rp["seq"])) if "seq" in rp else seqspace.pair_job_cli(tuple(rp["pair"]))
    found = list(judge(rec))
    return (rp["kind"] not in {k for k, _ in found}), "\n".join(f"{k}: {d}" for k, d in found) or "one run == chain of single runs"
