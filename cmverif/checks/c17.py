"""C17 - exactly the requested codemods run, once each, in the requested order.

Explicit enumeration of the configuration space (include / exclude lists over a token alphabet x
eligibility mode x registry) against the reference selection of DESIGN.md Appendix E, on the real
CodemodRegistry.match_codemods; plus end-to-end runs through codemodder.run() where the executed sequence
is read from the "running codemod" log lines and from the report.
"""
from __future__ import annotations

import itertools
import json
import re
import time

from .. import core, drive
from ..core import Violation

PROP = "C17"

DEFAULT_EXCLUDED = [  # documented ("generally not intended to be applied directly")
    "pixee:python/order-imports",
    "pixee:python/unused-imports",
    "pixee:python/fix-empty-sequence-comparison",
]

TOKENS = [
    "pixee:python/url-sandbox",
    "pixee:python/secure-random",
    "pixee:python/order-imports",
    "sonar:python/url-sandbox",
    "semgrep:python/url-sandbox",
    "pixee:python/no-such-codemod",
    "*",
    "*sandbox",
    "pixee:python/secure-*",
    "*:python/url-sandbox",
    "pixee:*-s*",
    "pixee:python/url-sandbox*",
    "*random",
    # pieces that are a prefix and a suffix of a real id but would have to overlap inside it: must not match
    "pixee:python/*python/url-sandbox",
    "*secure-*secure-random",
]

SYNTH = {
    # ids that are prefixes of one another / contain regex metacharacters
    "prefix": [("pixee", "a"), ("pixee", "a-b"), ("pixee", "a-b-c"), ("sonar", "a"), ("sonar", "a-b"), ("pixee", "b-a")],
    "meta": [("pixee", "a.b"), ("pixee", "axb"), ("pixee", "a+b"), ("pixee", "a(b)"), ("sonar", "a.b"), ("pixee", "ab")],
}
SYNTH_TOKENS = {
    "prefix": ["pixee:python/a", "pixee:python/a-b", "sonar:python/a", "pixee:python/a*", "*a", "*-b", "pixee:python/a-*c", "*", "pixee:python/zz", "*:python/a", "pixee:python/a-*-b", "*a-b*b-c", "*-*-*"],
    "meta": ["pixee:python/a.b", "pixee:python/a+b", "pixee:python/a(b)", "pixee:python/a.*", "*a.b", "pixee:python/a?b", "*", "pixee:python/a*b", "*(b)", "*+b"],
}


# --------------------------------------------------------------------------- reference model


def glob_full(tok: str, ident: str) -> bool:
    rx = ".*".join(re.escape(p) for p in tok.split("*"))
    return re.fullmatch(rx, ident, re.S) is not None


def ref_select(ids, include, exclude, sast):
    """-> (sequence, dont_care set).  ids: registry ids in registry order."""
    origin = lambda i: i.split(":")[0]
    if include:
        out = []
        for tok in include:
            hits = [i for i in ids if glob_full(tok, i)] if "*" in tok else ([tok] if tok in ids else [])
            out += [h for h in hits if h not in out]
        return out, set()
    excl = exclude or DEFAULT_EXCLUDED
    dont_care = set(DEFAULT_EXCLUDED) if exclude else set()
    seq = [
        i
        for i in ids
        if ((origin(i) != "pixee") == bool(sast))
        and not any(glob_full(t, i) if "*" in t else t == i for t in excl)
    ]
    return seq, dont_care


def csv_dedupe(items):
    return list(dict.fromkeys(items))


def compare(actual, ids, include, exclude, sast):
    exp, dc = ref_select(ids, include, exclude, sast)
    a = [x for x in actual if x not in dc]
    e = [x for x in exp if x not in dc]
    if a == e:
        return None
    extra = [x for x in a if x not in e]
    missing = [x for x in e if x not in a]
    dup = sorted({x for x in a if a.count(x) > 1})
    if dup:
        kind = "duplicate"
    elif extra:
        kind = "extra"
    elif missing:
        kind = "missing"
    else:
        kind = "order"
    return kind, {"expected": e[:12], "actual": a[:12], "extra": extra[:6], "missing": missing[:6], "dup": dup[:6]}


def classify_tok(t):
    if "*" not in t:
        return "id"
    if t == "*":
        return "star"
    inner = t.strip("*")
    s = ("prefix*" if t.endswith("*") else "") + ("*suffix" if t.startswith("*") else "")
    if "*" in inner:
        s += "infix"
    return s or "glob"


def config_class(include, exclude, sast, kind):
    toks = include or exclude or []
    cls = ",".join(sorted({classify_tok(t) for t in toks})) or "none"
    return f"{'include' if include else ('exclude' if exclude else 'default')}:{cls}:{'sast' if sast else 'fix'}:{kind}"


# --------------------------------------------------------------------------- registries


def _real_registry(perm):
    """The real registry loaded with its entry points delivered in the given order."""
    import codemodder.registry as reg
    from importlib.metadata import entry_points

    eps = sorted(entry_points().select(group="codemods"), key=lambda e: e.name)
    if len(eps) != len(perm):
        raise core.HarnessError(f"expected {len(perm)} codemod entry points, found {len(eps)}")
    ordered = [eps[i] for i in perm]

    class _EPs:
        def select(self, **kw):
            assert kw == {"group": "codemods"}, kw
            return ordered

    old_ep = reg.entry_points
    reg.entry_points = lambda: _EPs()
    reg.set = lambda it=(): _OrderedSet(it)  # iteration order of the set is the enumerated dimension
    try:
        return reg.load_registered_codemods()
    finally:
        reg.entry_points = old_ep
        del reg.set


class _OrderedSet(list):
    """Stands in for set() inside codemodder.registry: same elements, enumerated iteration order."""

    def __init__(self, it=()):
        super().__init__(dict.fromkeys(it))

    def add(self, x):
        if x not in self:
            self.append(x)

    def update(self, it):
        for x in it:
            self.add(x)


def _synth_registry(name):
    from codemodder.codemods.api import FindAndFixCodemod, Metadata, ReviewGuidance
    from codemodder.codemods.libcst_transformer import LibcstTransformerPipeline
    from codemodder.registry import CodemodCollection, CodemodRegistry

    def mk(origin, nm):
        class _C(FindAndFixCodemod):
            @property
            def origin(self):
                return origin

            @property
            def docs_module_path(self):
                return "core_codemods.docs"

        return _C(
            metadata=Metadata(name=nm, summary="s", review_guidance=ReviewGuidance.MERGE_WITHOUT_REVIEW, description="d"),
            transformer=LibcstTransformerPipeline(),
        )

    r = CodemodRegistry()
    by_origin = {}
    for o, n in SYNTH[name]:
        by_origin.setdefault(o, []).append(mk(o, n))
    for o, cs in by_origin.items():
        r.add_codemod_collection(CodemodCollection(origin=o, codemods=cs))
    return r


def lists_upto(tokens, n):
    out = [[]]
    for k in range(1, n + 1):
        out += [list(t) for t in itertools.product(tokens, repeat=k)]
    return out


def shard_pure(arg):
    """One registry x all lists x modes.  Returns (n_calls, n_distinct_outcomes, violations, sample)."""
    kind, spec, maxlen = arg
    if kind == "real":
        reg = _real_registry(spec)
        tokens = TOKENS
    else:
        reg = _synth_registry(spec)
        tokens = SYNTH_TOKENS[spec]
    ids = list(reg.ids)
    n = 0
    outcomes = set()
    viols = []
    sample = None
    for lst in lists_upto(tokens, maxlen):
        for form in ("include", "exclude"):
            if not lst and form == "include":
                continue
            for sast in (False, True):
                inc = csv_dedupe(lst) if form == "include" else None
                exc = csv_dedupe(lst) if form == "exclude" and lst else None
                try:
                    got = [c.id for c in reg.match_codemods(inc, exc, sast_only=sast)]
                except Exception as e:  # selection must not blow up on any list
                    viols.append(
                        (config_class(inc, exc, sast, "exception"), f"match_codemods raised {type(e).__name__}: {e}",
                         {"registry": [kind, spec], "include": inc, "exclude": exc, "sast": sast}, len(lst))
                    )
                    continue
                n += 1
                outcomes.add(hash(tuple(got)))
                bad = compare(got, ids, inc, exc, sast)
                if sample is None and inc and len(inc) == 2:
                    sample = {"registry": [kind, list(spec) if kind == "real" else spec], "include": inc, "sast": sast, "selected": got[:6]}
                if bad:
                    k, detail = bad
                    viols.append(
                        (config_class(inc, exc, sast, k), f"{form}={lst} sast={sast}: {k} {json.dumps(detail)[:400]}",
                         {"registry": [kind, spec], "include": inc, "exclude": exc, "sast": sast, "detail": detail}, len(lst))
                    )
    return n, len(outcomes), viols, sample, len(ids)


# --------------------------------------------------------------------------- end to end

EMPTY_SONAR = json.dumps({"issues": []}).encode()
EMPTY_SARIF = json.dumps(
    {"version": "2.1.0", "runs": [{"tool": {"driver": {"name": "Semgrep OSS", "rules": []}}, "results": []}]}
).encode()


def e2e_job(include, exclude, mode):
    argv = ["{dir}"]
    if include is not None:
        argv += ["--codemod-include", ",".join(include)]
    if exclude is not None:
        argv += ["--codemod-exclude", ",".join(exclude)]
    results = {}
    if mode == "sonar":
        argv += ["--sonar-issues-json", "{res:issues.json}"]
        results["issues.json"] = EMPTY_SONAR
    elif mode == "sarif":
        argv += ["--sarif", "{res:semgrep.sarif}"]
        results["semgrep.sarif"] = EMPTY_SARIF
    elif mode == "sarif-other-tool":
        # a valid SARIF file of a tool no codemod is written for: SARIF files are supplied, so tool codemods are eligible
        argv += ["--sarif", "{res:bandit.sarif}"]
        results["bandit.sarif"] = json.dumps({"version": "2.1.0", "runs": [{"tool": {"driver": {"name": "Bandit", "rules": []}}, "results": []}]}).encode()
    elif mode == "hotspots-only":
        # only hotspots, no issues file and no SARIF: find-and-fix codemods stay eligible
        argv += ["--sonar-hotspots-json", "{res:hotspots.json}"]
        results["hotspots.json"] = json.dumps({"hotspots": []}).encode()
    elif mode == "defectdojo-only":
        argv += ["--defectdojo-findings-json", "{res:dd.json}"]
        results["dd.json"] = json.dumps({"results": []}).encode()
    elif mode == "issues+hotspots":
        argv += ["--sonar-issues-json", "{res:issues.json}", "--sonar-hotspots-json", "{res:hotspots.json}"]
        results["issues.json"] = EMPTY_SONAR
        results["hotspots.json"] = json.dumps({"hotspots": []}).encode()
    return drive.Job(files={"app.py": b"x = 1\n"}, argv=argv, results=results)


def executed_sequence(obs):
    logged = [l[len("running codemod "):] for l in obs.logs[-1] if l.startswith("running codemod ")]
    reported = [r["codemod"] for r in (obs.report or {}).get("results", [])] if obs.report else None
    return logged, reported


FAULT_LIST = ["pixee:python/secure-random", "pixee:python/use-generator", "pixee:python/use-set-literal", "pixee:python/fix-assert-tuple"]


def e2e_fault_eval(arg):
    """One of the requested codemods raises while it is applied.  The run may abort (nothing to judge); if it completes, every
    requested codemod still ran once, in order - the one that raised included - and the report lists what ran."""
    _, failing = arg
    job = e2e_job(FAULT_LIST, None, "fix")
    job.files = {"app.py": b"import random\nr = random.random()\ns = set([1])\nt = sum([x for x in range(3)])\nassert (1, 'm')\n"}
    job.pre_hook, job.pre_hook_arg = "cmverif.faults:install_codemod_fault", {"codemod": FAULT_LIST[failing]}
    obs = drive.run_inproc(job)
    if obs.error:
        raise core.HarnessError(obs.error)
    rp = {"e2e_fault": failing}
    if not obs.extra.get("faults_fired"):
        raise core.HarnessError("codemod-level fault was not delivered")
    if obs.exit != 0:
        return [], None  # aborted run
    logged, reported = executed_sequence(obs)
    viols = []
    if logged != FAULT_LIST:
        viols.append((f"fault:codemod-raises:{failing}|executed-sequence", f"{FAULT_LIST[failing]} raised; the run completed with exit 0 but executed {logged}, requested {FAULT_LIST}", rp))
    ok_reports = (FAULT_LIST, [c for c in FAULT_LIST if c != FAULT_LIST[failing]])
    if reported is not None and reported not in ok_reports:
        viols.append((f"fault:codemod-raises:{failing}|report-vs-executed", f"report lists {reported}, executed {logged}", rp))
    if reported is not None:
        changed = {r["codemod"] for r in obs.report["results"] if r["changeset"]}
        want = {c for c in FAULT_LIST if c != FAULT_LIST[failing]}
        if reported in ok_reports and not want <= changed:
            viols.append((f"fault:codemod-raises:{failing}|codemod-listed-but-did-not-run", f"codemods {sorted(want - changed)} have work in app.py and are listed, but changed nothing", rp))
    return viols, {"fault": FAULT_LIST[failing], "executed": logged}


def e2e_eval(arg):
    include, exclude, mode = arg
    if include == "FAULT":
        return e2e_fault_eval(arg[1:])
    import codemodder.registry as reg

    ids = list(reg.load_registered_codemods().ids)
    obs = drive.run_inproc(e2e_job(include, exclude, mode))
    if obs.error:
        raise core.HarnessError(obs.error)
    return _e2e_judge(obs, ids, include, exclude, mode)


def _e2e_judge(obs, ids, include, exclude, mode):
    viols = []
    rp = {"e2e": True, "include": include, "exclude": exclude, "mode": mode}
    if include is not None and exclude is not None:
        if obs.exit != 3:
            viols.append((f"e2e:include+exclude:exit{obs.exit}", f"include and exclude together: exit {obs.exit}, expected 3", rp))
        return viols, None
    if obs.exit != 0:
        viols.append((f"e2e:exit{obs.exit}", f"run exited {obs.exit}: {obs.stderr[-1][-300:]}", rp))
        return viols, None
    logged, reported = executed_sequence(obs)
    inc = csv_dedupe(include) if include else None
    exc = csv_dedupe(exclude) if exclude else None
    sast = mode in ("sonar", "sarif", "sarif-other-tool", "issues+hotspots")
    bad = compare(logged, ids, inc, exc, sast)
    if bad:
        k, detail = bad
        viols.append((config_class(inc, exc, sast, k), f"e2e executed sequence: {k} {json.dumps(detail)[:400]}", rp))
    if reported != logged:
        viols.append(
            (config_class(inc, exc, sast, "report-vs-executed"),
             f"report lists {reported[:8] if reported else reported} but executed {logged[:8]}", rp)
        )
    return viols, {"include": include, "exclude": exclude, "mode": mode, "executed": logged[:5], "n": len(logged)}


def e2e_configs(tier):
    cfgs = []
    for mode in ("fix", "sonar", "sarif", "sarif-other-tool", "hotspots-only", "defectdojo-only", "issues+hotspots"):
        cfgs.append((None, None, mode))
    for mode in ("sarif-other-tool", "hotspots-only", "defectdojo-only"):
        cfgs.append((None, ["sonar:python/url-sandbox"], mode))
    singles = TOKENS if tier == "thorough" else [t for t in TOKENS if t != "*"]
    for t in singles:
        cfgs.append(([t], None, "fix"))
    cfgs.append((["*"], None, "fix"))
    pairs = [
        ["pixee:python/secure-random", "pixee:python/url-sandbox"],
        ["pixee:python/url-sandbox", "pixee:python/secure-random"],
        ["pixee:python/url-sandbox", "pixee:python/url-sandbox*"],
        ["pixee:python/url-sandbox*", "pixee:python/url-sandbox"],
        ["*sandbox", "*:python/url-sandbox"],
        ["pixee:python/no-such-codemod", "pixee:python/secure-random"],
        ["pixee:python/secure-random", "pixee:python/secure-random"],
        ["sonar:python/url-sandbox", "pixee:python/url-sandbox"],
    ]
    for p in pairs:
        cfgs.append((p, None, "fix"))
    cfgs.append((["sonar:python/url-sandbox", "semgrep:python/url-sandbox"], None, "sonar"))
    for e in (["pixee:python/secure-random"], ["pixee:*"], ["*sandbox"], ["pixee:python/secure-*", "pixee:python/url-sandbox"]):
        cfgs.append((None, e, "fix"))
    cfgs.append((None, ["sonar:python/url-sandbox"], "sonar"))
    cfgs.append((None, ["*url-sandbox"], "sarif"))
    cfgs.append((["pixee:python/secure-random"], ["pixee:python/url-sandbox"], "fix"))
    # an include option that names nothing (empty value, only separators) selects nothing; empty pieces between ids are unknown
    # ids like any other: the named codemods still run, in order.  The exclude option naming nothing excludes nothing.
    for mode in ("fix", "sonar", "sarif"):
        cfgs.append(([""], None, mode))
    cfgs += [(["", ""], None, "fix"), (["", "", ""], None, "sonar"),
             (["pixee:python/url-sandbox", "", "pixee:python/secure-random"], None, "fix"),
             (["", "pixee:python/secure-random"], None, "fix"), (["pixee:python/secure-random", ""], None, "fix"),
             (None, [""], "sonar")]
    if tier == "thorough":
        cheap = ["pixee:python/secure-random", "pixee:python/url-sandbox", "pixee:python/order-imports", "pixee:python/secure-*", "*sandbox", "pixee:python/no-such-codemod"]
        for a, b in itertools.permutations(cheap, 2):
            if ([a, b], None, "fix") not in cfgs:
                cfgs.append(([a, b], None, "fix"))
        for a, b, c in itertools.permutations(cheap[:4], 3):
            cfgs.append(([a, b, c], None, "fix"))
    return cfgs


# --------------------------------------------------------------------------- explore


def explore(tier, seed):
    maxlen = 2 if tier == "quick" else 3
    perms = list(itertools.permutations(range(4)))
    shards = [("real", p, maxlen) for p in perms] + [("synth", n, 3) for n in SYNTH]
    shards = drive.seed_rotate(shards, seed)
    res = drive.pmap("cmverif.checks.c17:shard_pure", shards)
    violations = []
    calls = sum(r[0] for r in res)
    outcomes = sum(r[1] for r in res)
    samples = [r[3] for r in res[:2] if r[3]]
    for (kind, spec, _), r in zip(shards, res):
        for sig, what, rp, dev in r[2]:
            violations.append(Violation(PROP, sig, what, rp, dev))
    cfgs = drive.seed_rotate(e2e_configs(tier) + [("FAULT", None, k) for k in range(len(FAULT_LIST))], seed)
    eres = drive.pmap("cmverif.checks.c17:e2e_eval", cfgs)
    for (inc, exc, mode), (vs, smp) in zip(cfgs, eres):
        for sig, what, rp in vs:
            violations.append(Violation(PROP, sig, what, rp, 1 if inc == "FAULT" else len(inc or exc or [])))
        if smp and len(samples) < 5:
            samples.append(smp)
    # conformance of the in-process driver with the real console entry point
    conf = 0
    for cfg in [c for c in cfgs if c[0] and c[0] != "FAULT" and len(c[0]) == 2][:3]:
        a = drive.run_inproc(e2e_job(*cfg))
        b = drive.run_cli(e2e_job(*cfg))
        la, ra = executed_sequence(a)
        lb, rb = executed_sequence(b)
        lb = [l for l in lb]
        if (a.exit, ra) != (b.exit, rb) or la != lb:
            raise core.HarnessError(f"in-process and CLI drivers disagree on {cfg}: {(a.exit, la, ra)} vs {(b.exit, lb, rb)}")
        conf += 1
    n_lists = len(lists_upto(TOKENS, maxlen))
    coverage = {
        "states": len(shards) * n_lists * 4 - len(shards) * 2,
        "transitions": calls + len(cfgs),
        "traces_validated_against_impl": calls + len(cfgs) + conf,
        "exhaustive": True,
        "samples": samples,
        "bounds": {
            "token_alphabet": TOKENS,
            "max_list_length": maxlen,
            "forms": ["include", "exclude", "default"],
            "modes": ["find-and-fix", "sast"],
            "registries": f"real registry under all {len(perms)} entry-point orders + {len(SYNTH)} synthetic registries (lists <= 3)",
            "registry_sizes": sorted({r[4] for r in res}),
        },
        "match_codemods_calls": calls,
        "distinct_selections": outcomes,
        "e2e_runs": len(cfgs),
        "cli_conformance_replays": conf,
        "rule": "state = (registry, list, form, mode); transition = one real match_codemods call or one real run(); every one compared with the reference selection",
    }
    assumptions = [
        "default-excluded codemods are 'don't care' when the user supplies --codemod-exclude (weakest reading)",
        "a '*' pattern is a glob that must match the whole id; '*' is the only wildcard",
        "hotspots-only and DefectDojo-only runs are not enumerated as eligibility modes (property names Sonar issue files and SARIF files)",
    ]
    return "model_checking", coverage, violations, assumptions


def replay(rp):
    drive.init_inproc()
    if "e2e_fault" in rp:
        vs, _ = e2e_fault_eval((None, rp["e2e_fault"]))
        return (not vs), "\n".join(v[1] for v in vs) or "every requested codemod ran once, in order"
    if rp.get("e2e"):
        import codemodder.registry as reg

        ids = list(reg.load_registered_codemods().ids)
        obs = drive.run_cli(e2e_job(rp["include"], rp["exclude"], rp["mode"]))
        vs, _ = _e2e_judge(obs, ids, rp["include"], rp["exclude"], rp["mode"])
        return (not vs), "\n".join(v[1] for v in vs) or "executed sequence == reference"
    kind, spec = rp["registry"]
    reg = _real_registry(spec) if kind == "real" else _synth_registry(spec)
    got = [c.id for c in reg.match_codemods(rp["include"], rp["exclude"], sast_only=rp["sast"])]
    bad = compare(got, list(reg.ids), rp["include"], rp["exclude"], rp["sast"])
    return (bad is None), json.dumps({"selected": got[:20], "mismatch": bad}, indent=1)
