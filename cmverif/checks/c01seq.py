"""Sequence part shared by C01 and C02: state invariants on every state reached by the pair histories."""
from __future__ import annotations

from .. import core, drive, progspace, seqspace
from ..core import Violation
from ..oracles import scope
from .c01 import parse_error


def steps(rec):
    yield "batch", rec["files"], rec["batch"]["tree"]
    yield "chain1", rec["files"], rec["chain"][0]["tree"]
    yield "chain2", rec["chain"][0]["tree"], rec["chain"][1]["tree"]


def syntax_judge(rec):
    for name, prev, nxt in steps(rec):
        for path, data in nxt.items():
            if not path.endswith(".py") or prev.get(path) == data or not isinstance(data, bytes):
                continue
            compiles = progspace.py_ok(prev[path], True)
            if not compiles and not progspace.py_ok(prev[path], False):
                continue
            err = parse_error(data, compiles)
            if err:
                yield (f"{path}|syntax", f"{name}: {path} no longer compiles: {err}")


def names_judge(rec):
    for name, prev, nxt in steps(rec):
        for path, data in nxt.items():
            if not path.endswith(".py") or prev.get(path) == data or not isinstance(data, bytes):
                continue
            ub, ua = scope.unresolved(prev[path]), scope.unresolved(data)
            if ub is None or ua is None:
                continue
            new = sorted(ua - ub)
            if new:
                yield (f"{path}|unbound:" + ",".join(new[:3]), f"{name}: {path} has new unresolved names {new}")


def explore_sequences(prop, tier, seed, judge):
    pairs, hit, wall = seqspace.explore_pairs(tier, seed)
    cands = {}
    states = set()
    for (k1, k2), rec in sorted(pairs.items()):
        states.add(core.tree_state_id(rec["files"]))
        for _, _, nxt in steps(rec):
            states.add(core.tree_state_id({k: v for k, v in nxt.items() if isinstance(v, bytes)}))
        for kind, detail in judge(rec):
            sig = f"seq|{k1}>{k2}|{kind}"
            cands.setdefault(sig, ((k1, k2), kind, detail))
    known_open = {k["signature"] for k in core.load_known() if k["property"] == prop and k["status"] == "open"}
    violations, divergence = [], []
    new = [(s, c) for s, c in sorted(cands.items()) if s not in known_open]
    confirmed = drive.pmap("cmverif.seqspace:pair_job_cli", [c[0] for _, c in new])
    for (sig, (pair, kind, detail)), rec in zip(new, confirmed):
        if kind in {k for k, _ in judge(rec)}:
            violations.append(Violation(prop, sig, detail[:500], {"sequence": True, "pair": list(pair), "kind": kind}, 2))
        else:
            divergence.append(sig)
    for sig, (pair, kind, detail) in sorted(cands.items()):
        if sig in known_open:
            violations.append(Violation(prop, sig, detail[:500], {"sequence": True, "pair": list(pair), "kind": kind}, 2))
    cov = {
        "pairs": len(pairs),
        "codemods": len(seqspace.codemods(tier)),
        "states": len(states),
        "transitions": 3 * len(pairs),
        "invocations": 3 * len(pairs) + 3 * len(new),
        "histories": "every ordered pair (K1,K2): D -K1,K2-> s  and  D -K1-> s1 -K2-> s2 on the collision project",
        "cache_hit": hit,
        "wall_s": round(wall, 1),
        "cli_divergence": divergence,
    }
    return cov, violations


def replay(rp, judge):
    rec = seqspace.pair_job_cli(tuple(rp["pair"]))
    found = list(judge(rec))
    ok = rp["kind"] not in {k for k, _ in found}
    return ok, "\n".join(d for _, d in found) or f"pair {rp['pair']}: invariant holds in every reached state"
