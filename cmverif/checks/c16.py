"""C16 - hardening codemods make only their documented edit.

Monitor over the shared program-space exploration (argument-shape, call-layout and import-style dimensions
included) for the hardening codemods:
  (A) the multiset difference between the identifiers, attribute names, keywords, constants and imports of P and of
      run_K(P) is contained in K's documented delta (DESIGN.md Appendix B, encoded below);
  (B) for every call of P the surviving arguments appear in run_K(P) in their original order (values unchanged except
      under the keywords the codemod hardens).
"""
from __future__ import annotations

import ast
import fnmatch

from .. import progcheck
from ..oracles import asttokens

PROP = "C16"

# codemod name -> (added patterns, removed patterns, hardened keywords).  Patterns are fnmatch globs over "kind:value".
T, F = "const:True", "const:False"
SPECS = {
    "requests-verify": ([T], [F], ["verify"]),
    "add-requests-timeouts": (["kw:timeout", "const:60"], [], ["timeout"]),
    "harden-pyyaml": (["attr:SafeLoader", "name:SafeLoader", "kw:Loader", "from:yaml.SafeLoader", "import:yaml"],
                      ["attr:*Loader", "name:*Loader", "from:yaml.*Loader"], ["Loader"]),
    "harden-ruamel": (["const:'safe'"], ["const:'base'", "const:'unsafe'"], ["typ"]),
    "jwt-decode-verify": ([T], [F], ["verify", "options"]),
    "enable-jinja2-autoescape": ([T, "kw:autoescape"], [F], ["autoescape"]),
    "safe-lxml-parser-defaults": ([F, T, "kw:resolve_entities"], [T, F], ["resolve_entities", "no_network", "dtd_validation"]),
    "safe-lxml-parsing": (["attr:XMLParser", "attr:etree", "kw:resolve_entities", "kw:parser", F, "name:lxml", "import:lxml.etree"], ["const:None"], ["parser"]),
    "secure-random": (["import:secrets", "name:secrets", "attr:SystemRandom", "attr:<imported-name>"], ["import:random", "from:random.*"], []),
    "secure-flask-cookie": ([T, "const:'Lax'", "kw:httponly", "kw:samesite", "kw:secure"], ["const:None", F, "const:'None'", "const:'Strict'"], ["secure", "httponly", "samesite"]),
    "django-secure-set-cookie": ([T, "const:'Lax'", "kw:httponly", "kw:samesite", "kw:secure"], ["const:None", F], ["secure", "httponly", "samesite"]),
    "subprocess-shell-false": ([F], [T], ["shell"]),
    "sandbox-process-creation": (["from:security.safe_command", "name:safe_command", "attr:run", "attr:call"], [], []),
    "url-sandbox": (["from:security.safe_requests", "name:safe_requests", "attr:<imported-name>"], ["import:requests", "from:requests.*"], []),
    "use-defusedxml": (["name:defusedxml", "import:defusedxml*", "attr:ElementTree", "attr:cElementTree", "attr:sax", "attr:minidom", "attr:pulldom", "attr:expatreader", "attr:expatbuilder", "attr:<imported-name>"],
                       ["from:xml.*", "import:xml*", "attr:etree", "attr:dom", "attr:cElementTree", "attr:ElementTree", "attr:sax", "attr:minidom"], []),
    "harden-pickle-load": (["import:fickling", "name:fickling", "attr:<imported-name>"], ["import:pickle", "from:pickle.*"], []),
    "https-connection": (["attr:HTTPSConnectionPool", "import:urllib3", "name:urllib3", "kw:_proxy_config"], ["attr:HTTPConnectionPool", "name:HTTPConnectionPool", "from:urllib3.HTTPConnectionPool", "from:urllib3.connectionpool.HTTPConnectionPool"], []),
    "upgrade-sslcontext-tls": (["attr:PROTOCOL_TLS_CLIENT", "name:ssl", "import:ssl", "kw:protocol"], ["attr:PROTOCOL_*", "name:PROTOCOL_*", "from:ssl.PROTOCOL_*"], ["protocol"]),
    "upgrade-sslcontext-minimum-version": (["attr:TLSv1_2", "attr:TLSVersion", "name:ssl", "import:ssl"], ["attr:SSLv*", "attr:TLSv*", "attr:MINIMUM_SUPPORTED", "attr:MAXIMUM_SUPPORTED", "name:TLSVersion", "from:ssl.TLSVersion"], []),
    "limit-readline": (["const:5000000"], [], []),
    "timezone-aware-datetime": (["attr:now", "attr:fromtimestamp", "attr:utc", "attr:timezone", "kw:tz", "from:datetime.timezone", "name:timezone"], ["attr:utcnow", "attr:utcfromtimestamp"], ["tz"]),
    "django-json-response-type": (["kw:content_type", "const:'application/json'"], [], ["content_type"]),
    "fix-math-isclose": (["kw:abs_tol", "const:1e-09"], ["const:0", "const:0.0"], ["abs_tol"]),
}


def import_bindings(data: bytes):
    """Names bound by import statements, and the names imported with `from m import x`."""
    bound, from_names = set(), set()
    for n in ast.walk(ast.parse(data)):
        if isinstance(n, ast.Import):
            for a in n.names:
                bound.add(a.asname or a.name.split(".")[0])
        elif isinstance(n, ast.ImportFrom):
            for a in n.names:
                bound.add(a.asname or a.name)
                from_names.add(a.name)
    return bound, from_names


def _allowed(tok, patterns, bindings, from_names):
    kind, val = tok
    s = f"{kind}:{val}"
    if kind in ("name", "asname") and val in bindings:
        return True  # names bound by imports (module names, aliases): using them more or less often is not an edit of its own
    for p in patterns:
        if p == "attr:<imported-name>":
            if kind == "attr" and val in from_names:
                return True
            continue
        if fnmatch.fnmatchcase(s, p):
            return True
    return False


def monitor(p, r):
    name = p.seed.codemod.split("/")[-1]
    spec = SPECS.get(name)
    if spec is None or not p.seed.compiles:
        return
    after = r.after[0]
    if after is None or after == r.before:
        return
    try:
        tb, ta = asttokens.tokens(r.before), asttokens.tokens(after)
        bb, fb = import_bindings(r.before)
        ba, fa = import_bindings(after)
    except (SyntaxError, ValueError):
        return  # C01's matter
    added, removed, hardened = spec
    bad_add = sorted(t for t in (ta - tb) if not _allowed(t, added, bb | ba, fb | fa))
    bad_rem = sorted(t for t in (tb - ta) if not _allowed(t, removed, bb | ba, fb | fa))
    if bad_add:
        yield ("undocumented-addition:" + ",".join(f"{k}:{v}" for k, v in bad_add[:2]), f"tokens added outside the documented delta: {bad_add[:6]}")
    if bad_rem:
        yield ("undocumented-removal:" + ",".join(f"{k}:{v}" for k, v in bad_rem[:2]), f"tokens removed outside the documented delta: {bad_rem[:6]}")
    # (B) argument survival and order, call by call (calls matched in source order when their number is unchanged).
    # Values may legitimately change (a hardened positional argument, a fixed nested call), so arguments are tracked
    # by kind: keyword names in order, starred arguments verbatim, number of positional arguments.
    cb, ca = asttokens.calls(r.before), asttokens.calls(after)
    if len(cb) == len(ca):
        for (fb_, ab), (fa_, aa) in zip(cb, ca):
            kw_b = [k for k, _ in ab if k not in (None, "*", "**") and k not in hardened]
            kw_a = [k for k, _ in aa if k not in (None, "*", "**") and k not in hardened]
            if not asttokens.is_subsequence(kw_b, kw_a):
                yield ("keyword-argument-lost-or-reordered", f"call {fb_}(...): keywords {kw_b} -> {kw_a}")
                break
            st_b = [(k, v) for k, v in ab if k in ("*", "**")]
            st_a = [(k, v) for k, v in aa if k in ("*", "**")]
            if not asttokens.is_subsequence(st_b, st_a):
                yield ("starred-argument-rewritten", f"call {fb_}(...): starred arguments {[(k, v[:50]) for k, v in st_b]} -> {[(k, v[:50]) for k, v in st_a]}")
                break
            pos_b = sum(1 for k, _ in ab if k is None)
            pos_a = sum(1 for k, _ in aa if k is None)
            if pos_a < pos_b and name not in ("https-connection",):
                yield ("positional-argument-lost", f"call {fb_}(...): {pos_b} positional arguments -> {pos_a}")
                break


def explore(tier, seed):
    names = set(SPECS)
    coverage, violations = progcheck.run_monitor(
        PROP, tier, seed, monitor, select=lambda p: p.seed.codemod.split("/")[-1] in names,
        describe="Oracle: token multiset delta within the documented delta (Appendix B) and surviving call arguments in original order.",
    )
    coverage["hardening_codemods"] = sorted(names)
    coverage["delta_specs"] = {k: {"added": v[0], "removed": v[1], "hardened_keywords": v[2]} for k, v in SPECS.items()}
    assumptions = [
        "the documented delta of a codemod is the union of what its documentation page and change description mention (weakest reading); names bound by import statements may be used more or less often",
        "the token check compares sets of token kinds against the delta, not counts per site",
        "the argument check applies when the number of calls in the file is unchanged",
        "batched execution is sound by sibling independence (C11e); every new candidate is re-executed alone through the CLI twice",
    ]
    return "model_checking", coverage, violations, assumptions


def replay(rp):
    return progcheck.replay_program(rp, monitor)
