"""C01 - every file codemodder rewrites is still syntactically valid Python.

State invariant evaluated on every successor state of the program-space exploration (all registered codemods x
seed corpus x context dimensions), plus codemod sequences K1;K2 on files containing a seed of each (history BFS
depth 2, both as one invocation and as two) - see c01seq.
"""
from __future__ import annotations

import ast
import warnings

from .. import progcheck, progspace

PROP = "C01"


def parse_error(data: bytes, compile_valid: bool):
    try:
        with warnings.catch_warnings():
            warnings.simplefilter("ignore")
            if compile_valid:
                compile(data, "<after>", "exec", dont_inherit=True)
            else:
                ast.parse(data)
        return None
    except (SyntaxError, ValueError, UnicodeDecodeError) as e:
        return f"{type(e).__name__}: {getattr(e, 'msg', e)} (line {getattr(e, 'lineno', '?')})"


def monitor(p, r):
    for k, after in enumerate(r.after[:2]):
        prev = r.before if k == 0 else r.after[k - 1]
        if after is None or after == prev:
            continue
        if prev is not None and not progspace.py_ok(prev, p.seed.compiles):
            continue  # an input that did not parse is out of scope (C10 owns it)
        err = parse_error(after, p.seed.compiles)
        if err:
            yield ("syntax" if k == 0 else "syntax-on-rerun", f"rewritten file no longer {'compiles' if p.seed.compiles else 'parses'}: {err}")


def explore(tier, seed):
    from . import c01seq

    coverage, violations = progcheck.run_monitor(PROP, tier, seed, monitor, describe="Oracle: compile(before) ok => compile(after) ok (ast.parse for parser-only seeds).")
    seq_cov, seq_viol = c01seq.explore_sequences(PROP, tier, seed, c01seq.syntax_judge)
    coverage["sequences"] = seq_cov
    coverage["states"] += seq_cov["states"]
    coverage["transitions"] += seq_cov["transitions"]
    coverage["traces_validated_against_impl"] += seq_cov["invocations"]
    violations += seq_viol
    assumptions = [
        "coverage is relative to the pinned seed corpus (662 seeds, all 101 codemods) and the context dimensions listed in coverage.space.mutators",
        "CPython's compile()/ast.parse decide validity; libcst is only used to produce inputs",
        "batched execution is sound by sibling independence (C11e); every new candidate is re-executed alone through the CLI twice",
    ]
    return "model_checking", coverage, violations, assumptions


def replay(rp):
    if rp.get("sequence"):
        from . import c01seq

        return c01seq.replay(rp, c01seq.syntax_judge)
    return progcheck.replay_program(rp, monitor)
