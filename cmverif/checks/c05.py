"""C05 - exactly the files selected by the include/exclude patterns are touched.

Explicit enumeration: a union tree containing every path shape (root file, nested package, test / build / venv /
VCS directories, non-Python files with the trigger text, file and directory symlinks pointing inside and outside the
target, a dangling link) x include lists x exclude lists over a pattern alphabet x codemod mode
(find-and-fix detector-less, find-and-fix semgrep-detected, Sonar-driven).  One real run() per configuration.
Reference model ref_select_paths (DESIGN.md Appendix E): set of files whose bytes changed == model set;
nothing outside the target changes; changeset paths == changed files.
"""
from __future__ import annotations

import fnmatch
import itertools
import json

from .. import core, drive
from ..core import Violation

PROP = "C05"

# every site line carries the trigger of every mode, so that a ':2' line filter never empties a selected file
SRC = b"import random\na = sum([random.random() for i in range(3)])\nb = sum([random.random() for i in range(3)])\n"
_COL = len("a = sum([")

PY_FILES = [
    "a.py",
    "src/a.py",
    "src/b.py",
    "src/pkg/deep/c.py",
    "src/tests/nested_t.py",
    "tests/test_a.py",
    "tests/sub/test_b.py",
    "test/t.py",
    "src/__tests__/x.py",
    "src/__test__/y.py",
    "conftest.py",
    "src/conftest.py",
    "build/gen.py",
    "dist/d.py",
    "venv/lib/v.py",
    ".venv/v.py",
    ".tox/t.py",
    ".git/hooks/h.py",
    "lib/site-packages/sp.py",
    "other/a.py",
    # siblings whose names extend a directory named by a pattern ('-' and '.' sort differently as path components and as
    # characters): they must not be confused with the directory itself
    "build-tools/gen.py",
    "build.py",
    "tests.old/legacy.py",
    "tests-extra/t.py",
    "src-gen/schema.py",
    "src.py",
    "venv.py",
    "dist.bak/d.py",
    # a hidden directory / file beside a directory / file of the same name without the dot
    ".ci/deploy.py",
    "ci/build.py",
    ".hid.py",
    "hid.py",
]
OTHER_FILES = {"notes.txt": SRC, "src/a.pyi": SRC, "src/data.json": b'{"k": 1}\n', "src/noext": SRC}
LINKS = {
    "link_in.py": ("symlink", "src/a.py"),
    "link_out.py": ("symlink", "../outside/o.py"),
    "dlink_in": ("symlink", "src/pkg"),
    "dlink_out": ("symlink", "../outside"),
    "dangling.py": ("symlink", "nowhere.py"),
}
OUTSIDE = {"o.py": SRC, "pkg/p.py": SRC}

DEFAULT_EXCLUDES = [  # documented defaults: test, build, virtualenv and VCS directories
    "test/**", "tests/**", "**/__test__/**", "**/__tests__/**", "conftest.py", "build/**", "dist/**", "venv/**",
    "**/site-packages/**", ".venv/**", ".tox/**", ".nox/**", ".eggs/**", ".git/**", ".mypy_cache/**",
    ".pytest_cache/**", ".hypothesis/**", ".coverage*",
]

PATTERNS = ["*.py", "**/*.py", "src/**", "src/*.py", "tests/**", "*a.py", "src/a.py:2", "**/a.py:2", "nomatch/**"]

# patterns spelled with a leading './' (shell completion, find, git ls-files): either they are matched literally (and
# then match nothing, relative paths never start with './') or the './' is taken off - both readings are accepted, no
# third one; crossed with hidden names, where stripping characters instead of the prefix shows
DOT_PATTERNS = ["./.ci/*.py", "./src/*.py", ".ci/*.py", "./.venv/**", "./.hid.py", "././src/**", "./*a.py", "./.ci/deploy.py:2"]

MODES = {
    "fix": "pixee:python/use-generator",
    "semgrep": "pixee:python/secure-random",
    "sonar": "sonar:python/secure-random",
}
PROJ_RELS = ["proj", "tests/venv/proj"]  # the second makes the *absolute* path contain default-excluded names


def tree():
    files = {p: SRC for p in PY_FILES}
    files.update(OTHER_FILES)
    files.update(LINKS)
    return files


def _undot(p):
    while p.startswith("./"):
        p = p[2:]
    return p


def ref_select_paths(include, exclude, mode, undot=False):
    if undot:
        include, exclude = [_undot(p) for p in include], [_undot(p) for p in exclude]
    inc = [p.split(":")[0] for p in include]
    exc = [p for p in exclude if ":" not in p]
    if mode != "sonar" and not exclude:
        exc = DEFAULT_EXCLUDES
    out = set()
    for f in PY_FILES:  # only real (non-symlink) Python files can be fixed
        if inc and not any(fnmatch.fnmatch(f, p) for p in inc):
            continue
        if any(fnmatch.fnmatch(f, p) for p in exc):
            continue
        out.add(f)
    return out


def sonar_doc():
    hs = []
    for i, f in enumerate(PY_FILES + ["notes.txt", "link_in.py"]):
        for line in (2, 3):
            hs.append({"ruleKey": "python:S2245", "status": "TO_REVIEW", "component": f"proj:{f}", "key": f"H{i}-{line}",
                       "textRange": {"startLine": line, "endLine": line, "startOffset": _COL, "endOffset": _COL + len("random.random()")}})
    return {"hotspots": hs}


def job(cfg):
    mode, proj_rel, include, exclude = cfg
    argv = ["{dir}", "--codemod-include", MODES[mode]]
    if include:
        argv += ["--path-include", ",".join(include)]
    if exclude:
        argv += ["--path-exclude", ",".join(exclude)]
    results = {}
    if mode == "sonar":
        argv += ["--sonar-hotspots-json", "{res:hotspots.json}"]
        results["hotspots.json"] = json.dumps(sonar_doc()).encode()
    # a second identical invocation on the evolving tree: what is selected does not depend on what has been fixed already
    return drive.Job(files=tree(), argv=argv, results=results, outside=OUTSIDE, proj_rel=proj_rel, runs=2 if mode == "semgrep" else 1)


def pattern_class(lst):
    def cls(p):
        c = "line" if ":" in p else "file"
        if p.startswith("**/"):
            c += "+dstar-prefix"
        elif p.endswith("/**"):
            c += "+dir"
        elif "/" in p:
            c += "+path"
        else:
            c += "+glob"
        return c

    return ",".join(sorted({cls(p) for p in lst})) or "none"


def judge(cfg, obs):
    mode, proj_rel, include, exclude = cfg
    out = []
    base = f"{mode}|{'abs-trap' if proj_rel != 'proj' else 'plain'}|inc:{pattern_class(include)}|exc:{pattern_class(exclude)}"
    if obs.exit != 0:
        return [(f"{base}|exit{obs.exit}", f"run exited {obs.exit}: {obs.stderr[-1][-300:]}")], False
    before, after = obs.before, obs.final
    changed = {f for f in set(before) | set(after) if before.get(f) != after.get(f)}
    expected = ref_select_paths(include, exclude, mode)
    if changed != expected and changed == ref_select_paths(include, exclude, mode, undot=True):
        expected = changed  # the './' prefix was taken off the patterns: the other accepted reading
    extra, missing = sorted(changed - expected), sorted(expected - changed)
    if extra:
        out.append((f"{base}|extra-files", f"files changed although not selected: {extra[:6]}"))
    if missing:
        out.append((f"{base}|missing-files", f"selected files with a fixable construct left alone: {missing[:6]}"))
    if obs.outside_after != OUTSIDE:
        out.append((f"{base}|outside-written", "a file outside the target directory was modified"))
    cs_paths = sorted({c["path"] for rep in obs.reports for r in (rep or {}).get("results", []) for c in r.get("changeset", [])})
    # (with path:line patterns a fix may move the named line, so a second run may legitimately have work: not judged)
    if len(obs.reports) > 1 and not any(":" in p_ for p_ in list(include) + list(exclude)) and any(c for r in (obs.reports[-1] or {}).get("results", []) for c in r.get("changeset", [])):
        out.append((f"{base}|second-run-changes", f"the second identical invocation reported changes again: {sorted(c['path'] for r in obs.reports[-1]['results'] for c in r['changeset'])[:6]}"))
    if cs_paths != sorted(changed):
        out.append((f"{base}|changeset-paths", f"changeset paths {cs_paths[:6]} != changed files {sorted(changed)[:6]}"))
    return out, bool(changed)


def eval_cfg(cfg):
    obs = drive.run_inproc(job(cfg))
    if obs.error:
        raise core.HarnessError(obs.error)
    return judge(cfg, obs)


def eval_cfg_cli(cfg):
    obs = drive.run_cli(job(cfg))
    if obs.error:
        raise core.HarnessError(obs.error)
    return judge(cfg, obs)


def lists(n):
    out = [()]
    for k in range(1, n + 1):
        out += list(itertools.permutations(PATTERNS, k))
    return out


def configs(tier):
    cfgs = []
    l1 = lists(1)
    if tier == "quick":
        for mode in ("fix", "sonar"):
            for pr in PROJ_RELS:
                for inc in l1:
                    for exc in l1:
                        cfgs.append((mode, pr, inc, exc))
        for inc in l1:
            cfgs.append(("semgrep", "proj", inc, ()))
        for exc in l1[1:]:
            cfgs.append(("semgrep", "proj", (), exc))
        cfgs.append(("semgrep", "tests/venv/proj", (), ()))
        # a few two-element lists where order could matter
        for inc, exc in [(("src/**", "*a.py"), ()), (("*a.py", "src/**"), ()), ((), ("tests/**", "src/a.py:2")), ((), ("src/a.py:2", "tests/**")), (("src/**",), ("src/*.py", "**/a.py:2"))]:
            cfgs.append(("fix", "proj", inc, exc))
    else:
        l2 = lists(2)
        for mode in ("fix", "sonar"):
            for pr in PROJ_RELS:
                for inc in l2:
                    for exc in l1:
                        cfgs.append((mode, pr, inc, exc))
                for inc in l1:
                    for exc in l2:
                        cfgs.append((mode, pr, inc, exc))
        for pr in PROJ_RELS:
            for inc in l1:
                for exc in l1:
                    cfgs.append(("semgrep", pr, inc, exc))
    for mode in ("fix", "sonar"):
        for p in DOT_PATTERNS:
            cfgs.append((mode, "proj", (p,), ()))
            cfgs.append((mode, "proj", (), (p,)))
            if tier != "quick":
                for q in ("src/**", "*.py"):
                    cfgs += [(mode, "proj", (p, q), ()), (mode, "proj", (q,), (p,)), (mode, "tests/venv/proj", (p,), (q,))]
    return list(dict.fromkeys(cfgs))


def explore(tier, seed):
    cfgs = drive.seed_rotate(configs(tier), seed)
    res = drive.pmap("cmverif.checks.c05:eval_cfg", cfgs, chunksize=2)
    cands = {}
    nontrivial = 0
    outcomes = set()
    for cfg, (found, nt) in zip(cfgs, res):
        nontrivial += bool(nt)
        for sig, detail in found:
            key = (len(cfg[2]) + len(cfg[3]), cfg[1] != "proj", cfg)
            c = cands.get(sig)
            if c is None or key < c[0]:
                cands[sig] = (key, cfg, detail)
    known_open = {k["signature"] for k in core.load_known() if k["property"] == PROP and k["status"] == "open"}
    violations, divergence = [], []
    for sig, (key, cfg, detail) in sorted(cands.items()):
        if sig not in known_open:
            s1 = {s for s, _ in eval_cfg_cli(cfg)[0]}
            s2 = {s for s, _ in eval_cfg_cli(cfg)[0]}
            if sig not in s1 or sig not in s2:
                divergence.append(sig)
                continue
        violations.append(Violation(PROP, sig, f"include={list(cfg[2])} exclude={list(cfg[3])} mode={cfg[0]} target={cfg[1]}: {detail}"[:600], {"cfg": [cfg[0], cfg[1], list(cfg[2]), list(cfg[3])], "sig": sig}, key[0]))
    # a large project: every selected file with a fixable construct is still fixed - also files in places other tools
    # ignore by default (vendor/, node_modules/, a git-ignored directory), with 700 unrelated siblings in long directories
    from . import c11

    crowd = {}
    for kind in ("semgrep-detected", "detector-less") if tier == "thorough" else ("semgrep-detected",):
        out, n_changed = c11.crowd_eval((kind, 700))
        crowd[kind] = n_changed
        if n_changed != len(c11.CROWD_TARGETS):
            sig = f"{'semgrep' if kind == 'semgrep-detected' else 'fix'}|large-project|missing-files"
            if sig in known_open or c11.crowd_eval((kind, 700))[1] != len(c11.CROWD_TARGETS):
                violations.append(Violation(PROP, sig, f"with 700 unrelated sibling files only {n_changed} of the {len(c11.CROWD_TARGETS)} selected files with a fixable construct were fixed ({c11.CROWD_TARGETS})", {"crowd": kind, "sig": sig}, 1))
    conf = 0
    for cfg in [c for c in cfgs if c[0] == "fix" and c[2] and c[3]][:3]:
        a, b = eval_cfg(cfg), eval_cfg_cli(cfg)
        if {s for s, _ in a[0]} != {s for s, _ in b[0]}:
            raise core.HarnessError(f"in-process and CLI drivers disagree on {cfg}")
        conf += 1
    coverage = {
        "states": len(cfgs),
        "transitions": len(cfgs),
        "traces_validated_against_impl": len(cfgs) + conf,
        "exhaustive": True,
        "samples": [{"mode": c[0], "target": c[1], "include": list(c[2]), "exclude": list(c[3]), "model_selected": sorted(ref_select_paths(c[2], c[3], c[0]))[:5]} for c in cfgs[5:8]],
        "configurations": len(cfgs),
        "configurations_where_files_changed": nontrivial,
        "pattern_alphabet": PATTERNS,
        "dot_slash_patterns": DOT_PATTERNS,
        "max_list_length": 1 if tier == "quick" else 2,
        "tree": {"python_files": len(PY_FILES), "other_files": len(OTHER_FILES), "symlinks": sorted(LINKS), "outside_files": sorted(OUTSIDE)},
        "modes": MODES,
        "cli_conformance_replays": conf,
        "cli_divergence": divergence,
        "large_project": {"siblings": 700, "targets_fixed": crowd},
        "rule": "configuration = (mode, target location, include list, exclude list); one real run each; compared with ref_select_paths; non-trivial = at least one file changed",
    }
    assumptions = [
        "default excludes apply iff the user gave no --path-exclude at all (weakest reading)",
        "patterns are matched with fnmatch semantics against the path relative to the target",
        "a pattern starting with './' is read either literally or with the './' prefix removed (both accepted)",
        "every triggerable file carries sites on two different lines so that line-level filters (C13's subject) never empty a selected file",
    ]
    return "model_checking", coverage, violations, assumptions


def replay(rp):
    if "crowd" in rp:
        from . import c11

        drive.init_inproc()
        out, n = c11.crowd_eval((rp["crowd"], 700))
        return (n == len(c11.CROWD_TARGETS)), f"{n} of {len(c11.CROWD_TARGETS)} targets fixed"
    cfg = (rp["cfg"][0], rp["cfg"][1], tuple(rp["cfg"][2]), tuple(rp["cfg"][3]))
    found, _ = eval_cfg_cli(cfg)
    return (rp["sig"] not in {s for s, _ in found}), "\n".join(f"{s}: {d}" for s, d in found) or "changed files == reference selection"
