"""C12 - no finding is lost or altered between the tool result files and the codemods.

(i)   algebra: every ordered family R1..Rm of result sets over rule ids {r1,r2} x files {f1,f2} with 0-2 results per
      key, combined with `|` and with `|=` exactly as the four loader loops do, for the base class and the four
      tool classes, against the multiset union (reference model ref_merge);
(ii)  formats: generated Sonar / SARIF / DefectDojo documents parsed by the public classes and loader functions
      against a plain-json reference extraction;
(iii) end to end: n findings of one rule in one file, every set partition into result files, every file order and
      flag assignment, through the real run(): every reported site must be fixed.
"""
from __future__ import annotations

import itertools
import json
from collections import Counter
from pathlib import Path

from .. import core, drive
from ..core import Violation

PROP = "C12"
RULES = ["r1", "r2"]
FILES = ["f1.py", "f2.py"]
KEYS = [(r, f) for r in RULES for f in FILES]
CLASSES = ["ResultSet", "SonarResultSet", "DefectDojoResultSet", "SemgrepResultSet", "CodeQLResultSet"]


# --------------------------------------------------------------------------- (i) algebra


def _classes():
    from codemodder.codeql import CodeQLResultSet
    from codemodder.result import ResultSet
    from codemodder.semgrep import SemgrepResultSet
    from core_codemods.defectdojo.results import DefectDojoResultSet
    from core_codemods.sonar.results import SonarResultSet

    return {"ResultSet": ResultSet, "SonarResultSet": SonarResultSet, "DefectDojoResultSet": DefectDojoResultSet, "SemgrepResultSet": SemgrepResultSet, "CodeQLResultSet": CodeQLResultSet}


def _mk_result(cls_name, rule, file, fid):
    from codemodder.result import LineInfo, SASTResult
    from core_codemods.defectdojo.results import DefectDojoLocation, DefectDojoResult
    from core_codemods.sonar.results import SonarLocation, SonarResult

    if cls_name == "SonarResultSet":
        return SonarResult(finding_id=fid, rule_id=rule, locations=[SonarLocation(file=Path(file), start=LineInfo(1, 0), end=LineInfo(1, 5))])
    if cls_name == "DefectDojoResultSet":
        return DefectDojoResult(finding_id=fid, rule_id=rule, locations=[DefectDojoLocation(file=Path(file), start=LineInfo(1), end=LineInfo(1))])
    if cls_name == "SemgrepResultSet":
        from codemodder.semgrep import SemgrepLocation, SemgrepResult

        return SemgrepResult(finding_id=fid, rule_id=rule, locations=[SemgrepLocation(file=Path(file), start=LineInfo(1, 1), end=LineInfo(1, 6))])
    if cls_name == "CodeQLResultSet":
        from codemodder.codeql import CodeQLLocation, CodeQLResult

        return CodeQLResult(finding_id=fid, rule_id=rule, locations=[CodeQLLocation(file=Path(file), start=LineInfo(1, 1), end=LineInfo(1, 6))])
    from codemodder.result import Location

    class _Loc(Location):
        pass

    return SASTResult(finding_id=fid, rule_id=rule, locations=[_Loc(file=Path(file), start=LineInfo(1, 0), end=LineInfo(1, 5))])


def build_set(cls, cls_name, counts, operand):
    rs = cls()
    for (rule, file), n in zip(KEYS, counts):
        for i in range(n):
            rs.add_result(_mk_result(cls_name, rule, file, f"op{operand}:{rule}:{file}:{i}"))
    return rs


def contents(rs):
    out = Counter()
    for rule, by_file in rs.items():
        for file, results in by_file.items():
            for r in results:
                out[(rule, str(file), r.finding_id)] += 1
    return out


def ref_merge(family):
    out = Counter()
    for op, counts in enumerate(family):
        for (rule, file), n in zip(KEYS, counts):
            for i in range(n):
                out[(rule, file, f"op{op}:{rule}:{file}:{i}")] += 1
    return out


def family_class(family):
    """Normalised description of a family: which key-overlap situations occur."""
    feats = set()
    if any(sum(c) == 0 for c in family):
        feats.add("empty-operand")
    for a, b in itertools.combinations(range(len(family)), 2):
        ka = {k for k, n in zip(KEYS, family[a]) if n}
        kb = {k for k, n in zip(KEYS, family[b]) if n}
        ra, rb = {k[0] for k in ka}, {k[0] for k in kb}
        if ka & kb:
            feats.add("same-rule-same-file")
        if (ra & rb) and any((r, f) in ka and (r, f) not in kb for r in ra & rb for f in FILES):
            feats.add("same-rule-other-file")
        if ra - rb or rb - ra:
            feats.add("rule-in-one-operand-only")
    return "+".join(sorted(feats)) or "disjoint-trivial"


def algebra_shard(arg):
    cls_name, families = arg
    cls = _classes()[cls_name]
    viols = {}
    n = 0
    outcomes = set()
    for fam in families:
        exp = ref_merge(fam)
        for form in ("ior", "or"):
            n += 1
            try:
                acc = cls()
                operands = []
                for op, counts in enumerate(fam):
                    operand = build_set(cls, cls_name, counts, op)
                    operands.append((operand, contents(operand)))
                    if form == "ior":
                        acc |= operand
                    else:
                        acc = acc | operand
                got = contents(acc)
                # combining must not disturb its operands: a result set may be combined again later (histories of merges)
                for k_, (operand, before_) in enumerate(operands):
                    if contents(operand) != before_:
                        sig = f"algebra|{cls_name}|{form}|operand-mutated"
                        if sig not in viols or len(fam) < len(viols[sig][0]):
                            viols[sig] = (fam, f"operand {k_} changed while later operands were combined: {sorted((contents(operand) - before_).elements())[:4]} added")
                        break
            except Exception as e:
                kind, detail = f"exception:{type(e).__name__}", f"{type(e).__name__}: {e}"
                got = None
            else:
                if got == exp:
                    outcomes.add(hash(frozenset(got.items())))
                    continue
                lost = sorted((exp - got).elements())
                dup = sorted((got - exp).elements())
                kind = "lost" if lost else "duplicated"
                detail = f"lost={lost[:4]} extra={dup[:4]}"
            sig = f"algebra|{cls_name}|{form}|{family_class(fam)}|{kind}"
            if sig not in viols or len(fam) < len(viols[sig][0]) or (len(fam) == len(viols[sig][0]) and sum(map(sum, fam)) < sum(map(sum, viols[sig][0]))):
                viols[sig] = (fam, detail)
    return n, len(outcomes), viols


def all_sets(maxper):
    return list(itertools.product(range(maxper + 1), repeat=len(KEYS)))


def families(tier):
    s2 = all_sets(2)
    s1 = all_sets(1)
    fams = [(a,) for a in s2] + [(a, b) for a in s2 for b in s2]
    if tier == "quick":
        fams += [(a, b, c) for a in s1 for b in s1 for c in s1]
    else:
        fams += [(a, b, c) for a in s2 for b in s2 for c in s2]
    return fams


def replay_algebra(rp):
    cls = _classes()[rp["cls"]]
    fam = [tuple(c) for c in rp["family"]]
    try:
        acc = cls()
        for op, counts in enumerate(fam):
            operand = build_set(cls, rp["cls"], counts, op)
            if rp["form"] == "ior":
                acc |= operand
            else:
                acc = acc | operand
        got = contents(acc)
    except Exception as e:
        return False, f"{type(e).__name__}: {e}"
    exp = ref_merge(fam)
    return got == exp, f"expected {sorted(exp.elements())}\n     got {sorted(got.elements())}"


# --------------------------------------------------------------------------- (ii) formats

OPEN_STATUS = ["OPEN", "TO_REVIEW"]
CLOSED_STATUS = ["RESOLVED", "CLOSED", "REVIEWED"]


def sonar_entry(kind, i, status, with_range=True, flows=False, rule="python:S2245", file="code.py"):
    e = {"key": f"K{kind}{i}", "status": status, "component": f"proj:{file}", "message": f"m{i}"}
    e["rule" if kind == "issues" else "ruleKey"] = rule
    if with_range:
        e["textRange"] = {"startLine": i + 1, "endLine": i + 1, "startOffset": 2, "endOffset": 9}
    if flows:
        e["flows"] = [{"locations": [{"component": f"proj:{file}", "textRange": {"startLine": 9, "endLine": 9, "startOffset": 0, "endOffset": 1}}]}]
    return e


def sonar_docs():
    docs = []
    for has_issues, has_hot in itertools.product((None, 0, 2), repeat=2):
        d = {}
        if has_issues is not None:
            d["issues"] = [sonar_entry("issues", i, "OPEN") for i in range(has_issues)]
        if has_hot is not None:
            d["hotspots"] = [sonar_entry("hotspots", i + 5, "TO_REVIEW") for i in range(has_hot)]
        docs.append((f"keys:issues={has_issues},hotspots={has_hot}", d))
    for st in OPEN_STATUS + CLOSED_STATUS:
        docs.append((f"status:{st}", {"issues": [sonar_entry("issues", 0, st), sonar_entry("issues", 1, "OPEN")]}))
        docs.append((f"hotspot-status:{st}", {"hotspots": [sonar_entry("hotspots", 0, st), sonar_entry("hotspots", 1, "TO_REVIEW")]}))
    docs.append(("no-textRange", {"issues": [sonar_entry("issues", 0, "OPEN", with_range=False), sonar_entry("issues", 1, "OPEN")]}))
    docs.append(("flows", {"issues": [sonar_entry("issues", 0, "OPEN", flows=True)]}))
    docs.append(("two-rules-two-files", {"issues": [sonar_entry("issues", 0, "OPEN"), sonar_entry("issues", 1, "OPEN", rule="python:S5796"), sonar_entry("issues", 2, "OPEN", file="other.py"), sonar_entry("issues", 3, "OPEN")]}))
    docs.append(("lower-case-status", {"issues": [sonar_entry("issues", 0, "open")]}))
    # a project key that itself contains colons (Maven style group:artifact): the path is what follows the last colon
    e = sonar_entry("issues", 0, "OPEN", flows=True)
    e["component"] = "com.acme:shop:code.py"
    e["flows"][0]["locations"][0]["component"] = "com.acme:shop:code.py"
    docs.append(("project-key-with-colons", {"issues": [e, sonar_entry("issues", 1, "OPEN")]}))
    return docs


def ref_sonar(doc):
    out = Counter()
    for kind in ("issues", "hotspots"):
        for e in doc.get(kind) or []:
            if e["status"].upper() not in OPEN_STATUS or not e.get("textRange"):
                continue
            tr = e["textRange"]
            out[(e.get("rule") or e.get("ruleKey"), e["component"].split(":")[-1], e["key"], tr["startLine"], tr["startOffset"], tr["endLine"], tr["endOffset"])] += 1
    return out


def got_locs(rs, with_cols=True):
    out = Counter()
    for rule, by_file in rs.items():
        for file, results in by_file.items():
            for r in results:
                for l in r.locations:
                    if str(l.file) != str(file):
                        continue
                    out[(rule, str(file), str(r.finding_id), l.start.line, l.start.column, l.end.line, l.end.column)] += 1
    return out


def sarif_result(rule, file, line, sc=5, ec=20, by_index=False, related=False, flows=False):
    r = {"message": {"text": "m"}, "locations": [{"physicalLocation": {"artifactLocation": {"uri": file}, "region": {"startLine": line, "endLine": line, "startColumn": sc, "endColumn": ec, "snippet": {"text": "x"}}}}]}
    if by_index:
        r["rule"] = {"index": 0, "toolComponent": {"index": 0}}
    else:
        r["ruleId"] = rule
    if related:
        r["relatedLocations"] = [{"message": {"text": "rel"}, "physicalLocation": {"artifactLocation": {"uri": file}, "region": {"startLine": 1, "endLine": 1, "startColumn": 1, "endColumn": 2}}}]
    if flows:
        r["codeFlows"] = [{"threadFlows": [{"locations": [{"location": {"physicalLocation": {"artifactLocation": {"uri": file}, "region": {"startLine": 1, "endLine": 1, "startColumn": 1, "endColumn": 2}}}}]}]}]
    return r


def sarif_run(tool, results, extensions=None):
    run = {"tool": {"driver": {"name": tool, "rules": []}}, "results": results}
    if extensions:
        run["tool"]["extensions"] = extensions
    return run


def sarif_docs():
    SG, CQ = "Semgrep OSS", "CodeQL"
    rid = "python.lang.security.rule-a"
    docs = [
        ("one-run", {"runs": [sarif_run(SG, [sarif_result(rid, "code.py", 2), sarif_result(rid, "code.py", 3)])]}),
        ("empty-results", {"runs": [sarif_run(SG, [])]}),
        ("two-runs-same-tool", {"runs": [sarif_run(SG, [sarif_result(rid, "code.py", 2)]), sarif_run(SG, [sarif_result(rid, "code.py", 3)])]}),
        ("two-runs-two-tools", {"runs": [sarif_run(SG, [sarif_result(rid, "code.py", 2)]), sarif_run(CQ, [sarif_result("py/other", "code.py", 3)])]}),
        ("three-runs", {"runs": [sarif_run(CQ, [sarif_result("py/other", "code.py", 4)]), sarif_run(SG, [sarif_result(rid, "code.py", 2)]), sarif_run(SG, [sarif_result(rid, "b.py", 3)])]}),
        ("related+flows", {"runs": [sarif_run(SG, [sarif_result(rid, "code.py", 2, related=True, flows=True)])]}),
        ("rule-by-index", {"runs": [sarif_run(SG, [sarif_result(rid, "code.py", 2, by_index=True)], extensions=[{"rules": [{"id": rid}]}])]}),
        ("two-rules-two-files", {"runs": [sarif_run(SG, [sarif_result(rid, "code.py", 2), sarif_result("rule-b", "code.py", 2), sarif_result(rid, "b.py", 7), sarif_result(rid, "code.py", 9)])]}),
    ]
    return [(l, dict(d, version="2.1.0")) for l, d in docs]


def ref_sarif(doc, tool):
    out = Counter()
    for run in doc["runs"]:
        name = run["tool"]["driver"]["name"]
        mine = ("semgrep" in name.lower()) if tool == "semgrep" else ("CodeQL" in name)
        if not mine:
            continue
        for r in run["results"]:
            rule = r.get("ruleId") or run["tool"]["extensions"][r["rule"]["toolComponent"]["index"]]["rules"][r["rule"]["index"]]["id"]
            for l in r["locations"]:
                reg = l["physicalLocation"]["region"]
                out[(rule, l["physicalLocation"]["artifactLocation"]["uri"], rule, reg["startLine"], reg["startColumn"], reg["endLine"], reg["endColumn"])] += 1
    return out


def dd_docs():
    t = "python.django.security.audit.avoid-insecure-deserialization.avoid-insecure-deserialization"
    return [
        ("several", {"results": [{"id": 1, "title": t, "file_path": "code.py", "line": 2}, {"id": 2, "title": t, "file_path": "code.py", "line": 3}]}),
        ("same-title-two-files", {"results": [{"id": 1, "title": t, "file_path": "code.py", "line": 2}, {"id": 2, "title": t, "file_path": "b.py", "line": 2}, {"id": 3, "title": "other", "file_path": "code.py", "line": 5}]}),
        ("empty", {"results": []}),
    ]


def ref_dd(doc):
    out = Counter()
    for r in doc["results"]:
        out[(r["title"], r["file_path"], str(r["id"]), r["line"], -1, r["line"], -1)] += 1
    return out


def restrict(got: Counter, keys):
    """Findings under the (rule, file) keys of the reference (foreign keys are 'ignored' by definition)."""
    return Counter({k: v for k, v in got.items() if (k[0], k[1]) in keys})


def formats_job(_):
    from codemodder.codemods.codeql import process_codeql_findings
    from codemodder.codemods.semgrep import process_semgrep_findings
    from codemodder.codeql import CodeQLResultSet
    from codemodder.sarifs import detect_sarif_tools
    from codemodder.semgrep import SemgrepResultSet
    from core_codemods.defectdojo.api import _process_results
    from core_codemods.defectdojo.results import DefectDojoResultSet
    from core_codemods.sonar.api import process_sonar_findings
    from core_codemods.sonar.results import SonarResultSet

    tmp = core.scratch_root() / "fmt"
    tmp.mkdir(exist_ok=True)
    viols, n, nontrivial = {}, 0, 0
    counter = itertools.count()

    def write(doc, bom=False):
        p = tmp / f"d{next(counter)}.json"
        p.write_bytes((b"\xef\xbb\xbf" if bom else b"") + json.dumps(doc).encode())
        return str(p)

    def check(sig, exp, fn, detail_ctx):
        nonlocal n, nontrivial
        n += 1
        nontrivial += bool(exp)
        drive.reset_caches()
        try:
            got = restrict(fn(), {(k[0], k[1]) for k in exp})
        except Exception as e:
            viols.setdefault(f"{sig}|exception:{type(e).__name__}", f"{detail_ctx}: {type(e).__name__}: {e}")
            return
        if got != exp:
            lost, extra = sorted((exp - got).elements()), sorted((got - exp).elements())
            viols.setdefault(f"{sig}|{'lost' if lost else 'extra'}", f"{detail_ctx}: lost={lost[:3]} extra={extra[:3]}")

    sd = sonar_docs()
    for label, doc in sd:
        check(f"format|sonar|{label.split(':')[0]}|from_json", ref_sonar(doc), lambda: got_locs(SonarResultSet.from_json(write(doc))), label)
    # loader loop over several files, all orders of pairs
    for (la, da), (lb, db) in itertools.permutations(sd[:9] + sd[-3:], 2):
        check("format|sonar|two-files|process_sonar_findings", ref_sonar(da) + ref_sonar(db), lambda: got_locs(process_sonar_findings((write(da), write(db)))), f"{la} ; {lb}")
    sf = sarif_docs()
    for label, doc in sf:
        for bom in (False, True):
            b = "+bom" if bom else ""
            check(f"format|semgrep|{label}{b}|from_sarif", ref_sarif(doc, "semgrep"), lambda: got_locs(SemgrepResultSet.from_sarif(write(doc, bom))), label + b)
            check(f"format|codeql|{label}{b}|from_sarif", ref_sarif(doc, "codeql"), lambda: got_locs(CodeQLResultSet.from_sarif(write(doc, bom))), label + b)
    for (la, da), (lb, db) in itertools.permutations(sf, 2):
        check("format|semgrep|two-files|process_semgrep_findings", ref_sarif(da, "semgrep") + ref_sarif(db, "semgrep"), lambda: got_locs(process_semgrep_findings((write(da), write(db)))), f"{la} ; {lb}")
        check("format|codeql|two-files|process_codeql_findings", ref_sarif(da, "codeql") + ref_sarif(db, "codeql"), lambda: got_locs(process_codeql_findings((write(da), write(db)))), f"{la} ; {lb}")
    # tool detection: each file is listed under exactly the tools that have a run in it
    for label, doc in sf:
        n += 1
        tools = {("semgrep" if "semgrep" in r["tool"]["driver"]["name"].lower() else "codeql") for r in doc["runs"]}
        names = [r["tool"]["driver"]["name"] for r in doc["runs"]]
        dup = any(sum(1 for x in names if ("semgrep" in x.lower()) == ("semgrep" in nm.lower())) > 1 for nm in names)
        try:
            got = {k for k, v in detect_sarif_tools([Path(write(doc))]).items() if v}
            if not dup and got != tools:
                viols.setdefault(f"format|detect|{label}|wrong-tools", f"{label}: detected {sorted(got)} expected {sorted(tools)}")
        except Exception as e:
            if not (dup and type(e).__name__ == "DuplicateToolError"):
                viols.setdefault(f"format|detect|{label}|exception:{type(e).__name__}", f"{label}: {e}")
    # histories of loader calls inside one process, caches NOT reset in between (the loaders memoise per file):
    # a later combination must not see findings that an earlier combination merged into a memoised set
    drive.reset_caches()
    a, b, c = (write({"issues": [sonar_entry("issues", i, "OPEN")]}) for i in (0, 1, 2))
    ref = {a: ref_sonar({"issues": [sonar_entry("issues", 0, "OPEN")]}), b: ref_sonar({"issues": [sonar_entry("issues", 1, "OPEN")]}), c: ref_sonar({"issues": [sonar_entry("issues", 2, "OPEN")]})}
    for hist in itertools.permutations([(a, b, c), (a,), (b, a), (c, b), (b,)], 3):
        drive.reset_caches()
        for step, files in enumerate(hist):
            n += 1
            exp = sum((ref[f] for f in files), Counter())
            try:
                got = restrict(got_locs(process_sonar_findings(tuple(files))), {(k[0], k[1]) for k in exp})
            except Exception as e:
                viols.setdefault(f"format|sonar|history|exception:{type(e).__name__}", f"{type(e).__name__}: {e}")
                break
            if got != exp:
                viols.setdefault("format|sonar|history|earlier-merge-leaks-into-later-one", f"step {step} of history {[len(h) for h in hist]}: extra={sorted((got - exp).elements())[:3]} lost={sorted((exp - got).elements())[:3]}")
                break
    drive.reset_caches()
    dd = dd_docs()
    for label, doc in dd:
        check(f"format|defectdojo|{label}|from_json", ref_dd(doc), lambda: got_locs(DefectDojoResultSet.from_json(write(doc))), label)
    for (la, da), (lb, db) in itertools.permutations(dd, 2):
        check("format|defectdojo|two-files|_process_results", ref_dd(da) + ref_dd(db), lambda: got_locs(_process_results((write(da), write(db)))), f"{la} ; {lb}")
    return n, nontrivial, viols


# --------------------------------------------------------------------------- (iii) end to end


def set_partitions(items, maxblocks):
    if not items:
        yield []
        return
    first, rest = items[0], items[1:]
    for p in set_partitions(rest, maxblocks):
        for i in range(len(p)):
            yield p[:i] + [[first] + p[i]] + p[i + 1 :]
        if len(p) < maxblocks:
            yield [[first]] + p


E2E = {
    "sonar": {
        "codemod": "sonar:python/secure-random",
        "line": "v{i} = random.random()",
        "head": "import random\n",
        "fixed": "secrets.SystemRandom().random()",
    },
    "defectdojo": {
        "codemod": "defectdojo:python/avoid-insecure-deserialization",
        "line": "v{i} = yaml.load(data{i})",
        "head": "import yaml\n",
        "fixed": "Loader=yaml.SafeLoader",
    },
    "sarif": {
        "codemod": "semgrep:python/harden-pyyaml",
        "line": "v{i} = yaml.load(data{i})",
        "head": "import yaml\n",
        "fixed": "Loader=yaml.SafeLoader",
    },
}


def e2e_cfgs(tier):
    n = 2 if tier == "quick" else 3
    cfgs = []
    for tool in ("sonar", "defectdojo"):
        for part in set_partitions(list(range(n)), 3):
            for order in itertools.permutations(range(len(part))):
                blocks = [tuple(sorted(part[i])) for i in order]
                kinds_opts = itertools.product(("issues", "hotspots"), repeat=len(blocks)) if tool == "sonar" else [("dd",) * len(blocks)]
                for kinds in kinds_opts:
                    cfgs.append((tool, n, tuple(blocks), tuple(kinds)))
    for order in ((0, 1), (1, 0)):
        cfgs.append(("sarif", n, order, ("two-runs-one-file",)))
    return list(dict.fromkeys(cfgs))


def e2e_job(cfg):
    tool, n, blocks, kinds = cfg
    spec = E2E[tool]
    src = spec["head"] + "".join(spec["line"].format(i=i) + "\n" for i in range(n))
    argv = ["{dir}", "--codemod-include", spec["codemod"]]
    results = {}
    if tool == "sonar":
        col = len("v0 = ")
        flags = {"issues": [], "hotspots": []}
        for b, (block, kind) in enumerate(zip(blocks, kinds)):
            ents = []
            for i in block:
                e = {"key": f"F{i}", "status": "OPEN" if kind == "issues" else "TO_REVIEW", "component": "proj:code.py",
                     "textRange": {"startLine": i + 2, "endLine": i + 2, "startOffset": col, "endOffset": col + len("random.random()")}}
                e["rule" if kind == "issues" else "ruleKey"] = "python:S2245"
                ents.append(e)
            name = f"s{b}.json"
            results[name] = json.dumps({kind: ents}).encode()
            flags[kind].append("{res:%s}" % name)
        if flags["issues"]:
            argv += ["--sonar-issues-json", ",".join(flags["issues"])]
        if flags["hotspots"]:
            argv += ["--sonar-hotspots-json", ",".join(flags["hotspots"])]
    elif tool == "defectdojo":
        t = "python.django.security.audit.avoid-insecure-deserialization.avoid-insecure-deserialization"
        names = []
        for b, block in enumerate(blocks):
            name = f"d{b}.json"
            results[name] = json.dumps({"results": [{"id": 10 + i, "title": t, "file_path": "code.py", "line": i + 2} for i in block]}).encode()
            names.append("{res:%s}" % name)
        argv += ["--defectdojo-findings-json", ",".join(names)]
    else:
        rid = "python.lang.security.deserialization.avoid-pyyaml-load.avoid-pyyaml-load"
        col = len("v0 = ") + 1
        runs = [
            sarif_run("Semgrep OSS", [sarif_result(rid, "code.py", i + 2, col, col + len("yaml.load(data0)")) for i in range(n)]),
            sarif_run("CodeQL", [sarif_result("py/unsafe-deserialization", "code.py", 2, col, col + 5)]),
        ]
        results["two.sarif"] = json.dumps({"version": "2.1.0", "runs": [runs[i] for i in blocks]}).encode()
        argv += ["--sarif", "{res:two.sarif}"]
    return drive.Job(files={"code.py": src.encode()}, argv=argv, results=results)


def e2e_judge(cfg, obs):
    tool, n, blocks, kinds = cfg
    spec = E2E[tool]
    shape = f"{len(blocks)}-files" if tool != "sarif" else "two-runs"
    base = f"e2e|{tool}|{shape}|{'+'.join(sorted(set(kinds)))}"
    if obs.exit != 0:
        return [(f"{base}|exit-{obs.exit if isinstance(obs.exit, int) else 'exception'}", f"run failed ({obs.exit}): {obs.stderr[-1][-300:]}")]
    after = obs.final["code.py"].decode()
    lines = after.splitlines()
    unfixed = [i for i in range(n) if not any(f"v{i} = " in l and spec["fixed"] in l for l in lines)]
    if unfixed:
        return [(f"{base}|site-not-fixed", f"reported sites {unfixed} were not fixed; blocks={blocks} kinds={kinds}")]
    rep = obs.report or {}
    fids = [f["id"] for r in rep.get("results", []) for cs in r.get("changeset", []) for c in cs.get("changes", []) for f in (c.get("findings") or [])]
    if len(fids) < n:
        return [(f"{base}|findings-missing-in-report", f"{n} findings reported by the tool, {len(fids)} attached to changes")]
    return []


def e2e_eval(cfg):
    obs = drive.run_inproc(e2e_job(cfg))
    if obs.error:
        raise core.HarnessError(obs.error)
    return e2e_judge(cfg, obs)


def e2e_eval_cli(cfg):
    obs = drive.run_cli(e2e_job(cfg))
    if obs.error:
        raise core.HarnessError(obs.error)
    return e2e_judge(cfg, obs)


# --------------------------------------------------------------------------- explore


def explore(tier, seed):
    fams = families(tier)
    nshards = 32 if tier == "quick" else 128
    shards = []
    for cls_name in CLASSES:
        for k in range(nshards // len(CLASSES) + 1):
            part = fams[k :: nshards // len(CLASSES) + 1]
            if part:
                shards.append((cls_name, part))
    res = drive.pmap("cmverif.checks.c12:algebra_shard", drive.seed_rotate(shards, seed))
    merges = sum(r[0] for r in res)
    outcomes = sum(r[1] for r in res)
    cands = {}
    for (cls_name, _), (_, _, viols) in zip(drive.seed_rotate(shards, seed), res):
        for sig, (fam, detail) in viols.items():
            c = cands.get(sig)
            if c is None or (len(fam), sum(map(sum, fam))) < (len(c[0]["family"]), sum(map(sum, c[0]["family"]))):
                cands[sig] = ({"algebra": True, "cls": sig.split("|")[1], "form": sig.split("|")[2], "family": [list(c_) for c_ in fam]}, detail)
    fn, fnontrivial, fviols = drive.pmap("cmverif.checks.c12:formats_job", [0])[0]
    for sig, detail in fviols.items():
        cands[sig] = ({"formats": True, "sig": sig}, detail)
    ecfgs = drive.seed_rotate(e2e_cfgs(tier), seed)
    eres = drive.pmap("cmverif.checks.c12:e2e_eval", ecfgs)
    ecands = {}
    for cfg, found in zip(ecfgs, eres):
        for sig, detail in found:
            if sig not in ecands or cfg < ecands[sig][0]:
                ecands[sig] = (cfg, detail)
    known_open = {k["signature"] for k in core.load_known() if k["property"] == PROP and k["status"] == "open"}
    violations, divergence = [], []
    for sig, (rp, detail) in sorted(cands.items()):
        violations.append(Violation(PROP, sig, detail[:500], dict(rp, sig=sig), 1))
    for sig, (cfg, detail) in sorted(ecands.items()):
        if sig not in known_open:
            s1 = {s for s, _ in e2e_eval_cli(cfg)}
            s2 = {s for s, _ in e2e_eval_cli(cfg)}
            if sig not in s1 or sig not in s2:
                divergence.append(sig)
                continue
        violations.append(Violation(PROP, sig, detail[:500], {"e2e": True, "cfg": [cfg[0], cfg[1], [list(b) if isinstance(b, tuple) else b for b in cfg[2]], list(cfg[3])], "sig": sig}, len(cfg[2])))
    # result files combined while several workers are allowed: every interleaving (<= 1 preemption, line granularity in
    # codemodder.result) of whatever tasks the loaders and the per-file stage create delivers every finding
    from . import c11a

    r = c11a.explore_cached("defectdojo-pages", "line", 1)
    sched_cov = {"executions": r["executions"], "distinct_outcomes": len(r["outcomes"]), "tasks": r["root"]["tasks"]}
    ref = r["details"][r["root"]["hash"]]
    if any(b"yaml.load(open('c.yml'))" in v for v in ref["tree"].values() if isinstance(v, bytes)):
        raise core.HarnessError("the sequential run of the DefectDojo pages driver does not fix every reported file")
    if len(r["outcomes"]) != 1:
        alt = [ch for h, ch in r["outcomes"].items() if h != r["root"]["hash"]][0]
        sig = "schedule|defectdojo-pages|findings-reaching-the-codemod-depend-on-interleaving"
        violations.append(Violation(PROP, sig, f"{len(r['outcomes'])} distinct outcomes over {r['executions']} schedules of a run with two DefectDojo result files and 2 workers; e.g. schedule {alt[:30]}", {"schedule": "defectdojo-pages", "choices": alt, "sig": sig}, 1))
    coverage = {
        "schedules_defectdojo_pages": sched_cov,
        "states": len(fams) * len(CLASSES) + fn + len(ecfgs),
        "transitions": merges + fn + len(ecfgs),
        "traces_validated_against_impl": merges + fn + len(ecfgs),
        "exhaustive": True,
        "samples": [
            {"family": [dict(zip(map(str, KEYS), f)) for f in fams[len(fams) // 3]], "forms": ["|=", "|"], "classes": CLASSES},
            {"e2e": ecfgs[0]},
        ],
        "algebra": {"families": len(fams), "merges": merges, "distinct_correct_outcomes": outcomes, "keys": [list(k) for k in KEYS], "results_per_key": "0-2 (pairs, singles), 0-1 (triples, quick) / 0-2 (triples, thorough)"},
        "formats": {"cases": fn, "cases_with_findings": fnontrivial, "sonar_docs": len(sonar_docs()), "sarif_docs": len(sarif_docs()), "defectdojo_docs": len(dd_docs())},
        "e2e": {"runs": len(ecfgs), "findings_per_run": 2 if tier == "quick" else 3, "cli_divergence": divergence},
        "rule": "state = ordered family of result sets (or a generated document, or a partition of findings into files); transition = the real merge / parse / run; compared with multiset union / plain-json extraction / all-sites-fixed",
    }
    assumptions = [
        "Sonar statuses are drawn from unambiguously open (OPEN, TO_REVIEW) and unambiguously closed values only",
        "result order inside a key is not part of the property; contents are compared as multisets",
        "entries under (rule, file) keys that the reference does not contain (foreign runs) are ignored, as the property lets them be",
        "SARIF regions always carry the four coordinates (what Semgrep emits); Sonar entries always carry a status",
    ]
    return "model_checking", coverage, violations, assumptions


def replay(rp):
    drive.init_inproc()
    if rp.get("schedule"):
        from . import c11a

        _, h1, _ = c11a.run_once(rp["schedule"], rp["choices"], "line")
        _, h0, _ = c11a.run_once(rp["schedule"], [], "line")
        return (h1 == h0), f"schedule {rp['choices'][:40]} -> outcome {h1}; sequential schedule -> {h0}"
    if rp.get("algebra"):
        return replay_algebra(rp)
    if rp.get("formats"):
        n, _, viols = formats_job(0)
        return (rp["sig"] not in viols), viols.get(rp["sig"], "parsed findings == reference extraction")
    c = rp["cfg"]
    cfg = (c[0], c[1], tuple(tuple(b) if isinstance(b, list) else b for b in c[2]), tuple(c[3]))
    found = e2e_eval_cli(cfg)
    return (rp["sig"] not in {s for s, _ in found}), "\n".join(d for _, d in found) or "all reported sites fixed"
