"""C08 - refactoring codemods preserve program behaviour.

Bounded-exhaustive differential execution: for every codemod presented as a pure refactoring a closed-program family is
generated (every member complete, deterministic, printing its observations); every member is transformed by the real
run() (batched), and original and rewritten program are executed in fresh namespaces; observe = (stdout, exception type).
"""
from __future__ import annotations

import contextlib
import io
import itertools
import signal

from .. import core, drive
from ..core import Violation

PROP = "C08"


# --------------------------------------------------------------------------- families: (row label, program text)


def fam_combine_startswith(tier):
    cm = "pixee:python/combine-startswith-endswith"
    args = {"lit": ("'x'", "'a'"), "tuplit": ("('x', 'q')", "('a', 'b')"), "strname": ("s1", "s2"), "tupname": ("t1", "t2")}
    forms = {
        "C1 or C2": "{C1} or {C2}",
        "C1 or C2 or C3": "{C1} or {C2} or {C3}",
        "C1 or C2 and c": "{C1} or {C2} and c",
        "(C1 or C2) and c": "({C1} or {C2}) and c",
        "c and C1 or C2": "c and {C1} or {C2}",
        "c or C1 or C2": "c or {C1} or {C2}",
        "not (C1 or C2)": "not ({C1} or {C2})",
        "not C1 or C2": "not {C1} or {C2}",
        "C1 or D": "{C1} or {D}",
        "C1 or E or C2": "{C1} or {E} or {C2}",
        "C1 and C2": "{C1} and {C2}",
        "C1 or c or C2": "{C1} or c or {C2}",
    }
    if tier == "thorough":
        forms.update({
            "(C1 or C2) or (C3 and c)": "({C1} or {C2}) or ({C3} and c)",
            "C1 or (C2 or C3)": "{C1} or ({C2} or {C3})",
            "not (C1 or C2) and c": "not ({C1} or {C2}) and c",
            "C1 or C2 if c else C3": "{C1} or {C2} if c else {C3}",
            "c and (C1 or C2) or C3": "c and ({C1} or {C2}) or {C3}",
        })
    out = []
    for meth in ("startswith", "endswith"):
        for (k1, a1), (k2, a2) in itertools.product(args.items(), repeat=2):
            if tier == "quick" and meth == "endswith" and (k1, k2) not in (("lit", "lit"), ("lit", "tupname")):
                continue
            for fl, form in forms.items():
                expr = form.format(C1=f"a.{meth}({a1[0]})", C2=f"a.{meth}({a2[1]})", C3=f"a.{meth}('z')", D=f"b.{meth}({a1[0]})", E=f"a.{'endswith' if meth == 'startswith' else 'startswith'}('a')")
                for av in ("xa", "ab", "", "qz"):
                    for c in (True, False):
                        text = f"s1, s2 = 'x', 'a'\nt1, t2 = ('x', 'q'), ('a', 'b')\na, b, c = {av!r}, 'xx', {c}\nprint(repr({expr}))\n"
                        out.append((f"{meth}|{fl}|args={k1},{k2}", text))
    return cm, out


def fam_combine_isinstance(tier):
    cm = "pixee:python/combine-isinstance-issubclass"
    args = {"type": ("int", "str"), "tuplit": ("(int, float)", "(str, bytes)"), "typename": ("T1", "T2"), "tupname": ("U1", "U2")}
    forms = {
        "C1 or C2": "{C1} or {C2}",
        "C1 or C2 or C3": "{C1} or {C2} or {C3}",
        "C1 or C2 and c": "{C1} or {C2} and c",
        "(C1 or C2) and c": "({C1} or {C2}) and c",
        "c and C1 or C2": "c and {C1} or {C2}",
        "not (C1 or C2)": "not ({C1} or {C2})",
        "C1 or D": "{C1} or {D}",
        "C1 and C2": "{C1} and {C2}",
        "C1 or c or C2": "{C1} or c or {C2}",
    }
    out = []
    for fn, vals in (("isinstance", ["1", "'s'", "2.5", "None"]), ("issubclass", ["int", "str", "bool", "list"])):
        for (k1, a1), (k2, a2) in itertools.product(args.items(), repeat=2):
            if tier == "quick" and fn == "issubclass" and (k1, k2) not in (("type", "type"), ("type", "tupname")):
                continue
            for fl, form in forms.items():
                expr = form.format(C1=f"{fn}(x, {a1[0]})", C2=f"{fn}(x, {a2[1]})", C3=f"{fn}(x, list)", D=f"{fn}(y, {a1[0]})")
                for xv in vals:
                    for c in (True, False):
                        text = f"T1, T2 = int, str\nU1, U2 = (int, float), (str, bytes)\nx, y, c = {xv}, {vals[0]}, {c}\nprint(repr({expr}))\n"
                        out.append((f"{fn}|{fl}|args={k1},{k2}", text))
    return cm, out


def fam_invert_boolean(tier):
    cm = "pixee:python/invert-boolean-check"
    ops = ["==", "!=", "<", "<=", ">", ">=", "is", "is not", "in", "not in"]
    vals = {
        "ints": ("1", "2", "3"), "equal": ("2", "2", "2"), "strs": ("'a'", "'b'", "'ab'"), "sets": ("{1}", "{1, 2}", "{2}"),
        "nan": ("float('nan')", "1.0", "float('nan')"), "none": ("None", "None", "1"), "bool": ("True", "1", "False"), "lists": ("[1]", "[[1], 2]", "[1]"),
    }
    out = []
    for op in ops:
        for vl, (a, b, c) in vals.items():
            for paren in (False, True):
                inner = f"a {op} b"
                expr = f"not ({inner})" if paren else f"not {inner}"
                out.append((f"not a {op} b{'|paren' if paren else ''}", f"a, b, c = {a}, {b}, {c}\nprint(repr({expr}))\n"))
            for op2 in (ops if tier == "thorough" else ["==", "<", "in"]):
                out.append((f"not a {op} b {op2} c", f"a, b, c = {a}, {b}, {c}\nprint(repr(not a {op} b {op2} c))\n"))
            out.append((f"if not a {op} b", f"a, b, c = {a}, {b}, {c}\nif not a {op} b:\n    print('then')\nelse:\n    print('else')\n"))
    return cm, out


def fam_use_generator(tier):
    cm = "pixee:python/use-generator"
    comps = {
        "plain": "[x for x in xs]", "if": "[x for x in xs if x > 1]", "nested": "[x + y for x in xs for y in xs]",
        "side-effect": "[log(x) for x in xs]", "bool": "[x > 1 for x in xs]", "strs": "[str(x) for x in xs]",
    }
    calls = {"any": "any({C})", "all": "all({C})", "sum": "sum({C})", "sum-start": "sum({C}, 10)", "min-default": "min({C}, default=0)", "max-key": "max({C}, key=lambda v: -v, default=None)",
             "sorted": "sorted({C})", "tuple": "tuple({C})", "set": "set({C})", "join": "','.join({C})", "len-list": "len(list({C}))"}
    out = []
    for (cl, call), (kl, comp) in itertools.product(calls.items(), comps.items()):
        if cl == "join" and kl != "strs":
            continue
        if kl == "strs" and cl not in ("join", "sorted", "tuple", "any"):
            continue
        for xs in ("[]", "[1, 2, 3]", "[0]"):
            text = f"seen = []\ndef log(v):\n    seen.append(v)\n    return v\nxs = {xs}\nr = {call.format(C=comp)}\nprint(repr(r), seen)\n"
            out.append((f"{cl}|{kl}", text))
    return cm, out


def fam_use_set_literal(tier):
    cm = "pixee:python/use-set-literal"
    out = []
    for lab, expr in {"ints": "set([1, 2, 2])", "empty": "set([])", "nested": "set([frozenset([1]), frozenset([1])])", "calls": "set([f(1), f(2)])", "star": "set([*xs, 3])",
                      "inner-set-call": "set([len(set([1, 1])), 5])", "tuple-arg": "set((1, 2))", "comparison": "set([set([1]) == set([1]), 3])"}.items():
        out.append((lab, f"seen = []\ndef f(v):\n    seen.append(v)\n    return v\nxs = [1, 2]\nprint(sorted(map(repr, {expr})), seen)\n"))
    return cm, out


def fam_walrus(tier):
    cm = "pixee:python/use-walrus-if"
    out = []
    tests = {"truthy": "if x:", "is-not-none": "if x is not None:", "eq": "if x == 2:", "in": "if x in (1, 2):", "not": "if not x:", "gt-call": "if len(str(x)) > 0:"}
    for tl, test in tests.items():
        for later in (True, False):
            for val in ("2", "0", "None"):
                body = f"def g():\n    return {val}\nx = g()\n{test}\n    print('then', x)\nelse:\n    print('else', x)\n" + ("print('later', x)\n" if later else "")
                out.append((f"{tl}|later={later}", body))
                fn = f"def g():\n    return {val}\ndef h():\n    x = g()\n    {test}\n        return ('then', x)\n    return ('else', x)\nprint(h())\n"
                out.append((f"{tl}|in-function", fn))
    out.append(("comment-between", "def g():\n    return 1\nx = g()  # c1\n# c2\nif x:\n    print(x)\n"))
    out.append(("two-assignments", "def g():\n    return 1\nx = g()\ny = g()\nif y:\n    print(x, y)\n"))
    out.append(("reassigned-in-test", "def g():\n    return 1\nx = g()\nif x and (x := 0) == 0:\n    print(x)\nprint(x)\n"))
    return cm, out


def fam_fstr(tier):
    cm = "pixee:python/remove-unnecessary-f-str"
    lits = {"plain": 'f"abc"', "braces": 'f"a {{b}} c"', "single": "f'x'", "raw": 'rf"\\d+"', "raw2": 'fr"\\n{{}}"', "triple": 'f"""a\nb"""', "concat": 'f"a" "b" f"c"', "with-expr": 'f"a{1}b"',
            "nested-quote": 'f"it\'s"', "backslash": 'f"a\\tb"', "upper": 'F"abc"', "empty": 'f""', "percent": 'f"100%"', "braces-only": 'f"{{}}"'}
    return cm, [(k, f"v = {v}\nprint(repr(v), len(v))\n") for k, v in lits.items()]


LOG_PRELUDE = (
    "import logging, sys\n"
    "class H(logging.Handler):\n    def emit(self, r):\n        print(r.levelname, r.getMessage())\n"
    "logger = logging.getLogger('fam')\nlogger.handlers[:] = [H()]\nlogger.setLevel(logging.DEBUG)\nlogger.propagate = False\n"
    "root = logging.getLogger()\nroot.handlers[:] = [H()]\nroot.setLevel(logging.DEBUG)\n"
)


def fam_lazy_logging(tier):
    cm = "pixee:python/lazy-logging"
    out = []
    calls = {
        "mod-one": "logging.info('v %s' % x)", "mod-tuple-lit": "logging.info('v %s %s' % (x, y))", "mod-tuple-name": "logging.info('v %s %s' % t)",
        "mod-percent": "logging.info('100%% of %s' % x)", "mod-dict": "logging.info('v %(a)s' % d)", "mod-list": "logging.info('v %s' % [1, 2])",
        "plus-str": "logging.info('v ' + s)", "plus-two": "logging.info('a' + s + 'b')", "plus-percent": "logging.info('50% ' + s)", "plus-nonstr": "logging.info('v ' + str(x))",
        "logger-obj": "logger.warning('v %s' % x)", "with-args": "logging.info('v %s' % x, exc_info=False)", "mod-d": "logging.info('n=%d' % x)", "mod-r": "logging.info('r=%r' % s)",
        "error-level": "logging.error('e %s' % x)", "debug-plus": "logger.debug('d ' + s)", "one-tuple": "logging.info('v %s' % (x,))", "nested-tuple": "logging.info('v %s' % ((x, y),))",
    }
    for lab, call in calls.items():
        for vals in ("x, y, s = 1, 2, 'str'", "x, y, s = 'a%sb', None, '%d'"):
            out.append((lab, LOG_PRELUDE + f"{vals}\nt = (x, y)\nd = {{'a': x}}\n{call}\n"))
    return cm, out


def fam_logging_warn(tier):
    cm = "pixee:python/fix-deprecated-logging-warn"
    out = []
    for lab, call in {"module": "logging.warn('w %s', 1)", "logger": "logger.warn('w')", "getlogger": "logging.getLogger('fam').warn('x %s', 'y')", "kwargs": "logging.warn('w', exc_info=False)"}.items():
        out.append((lab, "import warnings\nwarnings.simplefilter('ignore')\n" + LOG_PRELUDE + call + "\n"))
    return cm, out


def fam_hasattr(tier):
    cm = "pixee:python/fix-hasattr-call"
    out = []
    for lab, val in {"function": "len", "lambda": "(lambda: 1)", "class": "int", "instance-callable": "C()", "instance-plain": "D()", "int": "3", "none": "None"}.items():
        out.append((lab, f"class C:\n    def __call__(self):\n        return 1\nclass D:\n    pass\nobj = {val}\nprint(hasattr(obj, '__call__'))\nif hasattr(obj, '__call__'):\n    print('callable')\n"))
    return cm, out


def fam_file_leak(tier):
    cm = "pixee:python/fix-file-resource-leak"
    out = []
    shapes = {
        "read": "f = open(path)\ndata = f.read()\nprint(data, f.closed)\n",
        "read-then-use": "f = open(path)\ndata = f.read()\nprint(len(data))\nprint(f.closed)\n",
        "in-function": "def g():\n    f = open(path)\n    return f.read()\nprint(g())\n",
        "write": "f = open(path, 'a')\nf.write('x')\nprint(f.closed)\n",
        "two-files": "f = open(path)\ng = open(path)\nprint(f.read() == g.read())\n",
        "closed-explicitly": "f = open(path)\nprint(f.read())\nf.close()\nprint(f.closed)\n",
        # the file escapes into something that reads it LATER, after the last statement naming it: lazy builtins, generators,
        # bound methods, containers, closures, a second name
        "lazy-enumerate": "f = open(path)\nrows = enumerate(f, 1)\nprint('x')\nprint(list(rows))\n",
        "lazy-zip": "f = open(path)\npairs = zip(f, range(3))\nprint('x')\nprint(list(pairs))\n",
        "lazy-map": "f = open(path)\nlines = map(str.strip, f)\nprint('x')\nprint(list(lines))\n",
        "lazy-iter": "f = open(path)\nit = iter(f)\nprint('x')\nprint(next(it))\n",
        "lazy-genexp": "f = open(path)\ngen = (l.upper() for l in f)\nprint('x')\nprint(list(gen))\n",
        "lazy-filter": "f = open(path)\nkept = filter(None, f)\nprint('x')\nprint(list(kept))\n",
        "bound-method": "f = open(path)\nread = f.read\nprint('x')\nprint(read())\n",
        "in-container": "f = open(path)\nbox = [f]\nprint('x')\nprint(box[0].read())\n",
        "alias-name": "f = open(path)\ng = f\nprint('x')\nprint(g.read())\n",
        "closure": "f = open(path)\ndef later():\n    return f.read()\nprint('x')\nprint(later())\n",
        "lambda": "f = open(path)\nlater = lambda: f.read()\nprint('x')\nprint(later())\n",
        "eager-builtins": "f = open(path)\nprint(len(list(f)))\nprint('after')\n",
        "print-to-file": "f = open(path, 'a')\nprint('more', file=f)\nprint('after')\n",
        "for-enumerate": "f = open(path)\nfor i, line in enumerate(f):\n    print(i, line)\nprint('after')\n",
        "returned-iterator": "def rows():\n    f = open(path)\n    return enumerate(f)\nprint(list(rows()))\n",
        "yielded": "def rows():\n    f = open(path)\n    for line in f:\n        yield line\nprint(list(rows()))\n",
    }
    pre = "import os, tempfile\nfd, path = tempfile.mkstemp()\nos.write(fd, b'hello')\nos.close(fd)\n"
    for lab, body in shapes.items():
        out.append((lab, pre + body + "os.unlink(path)\n"))
    return cm, out


def fam_lock(tier):
    cm = "pixee:python/bad-lock-with-statement"
    out = []
    for cls in ("Lock", "RLock", "Semaphore", "Condition"):
        out.append((cls, f"import threading\nlock = threading.{cls}()\nwith lock:\n    print('in')\nprint('ok')\nwith threading.{cls}():\n    print('body')\nprint('done')\n"))
        out.append((cls + "-as", f"import threading\nwith threading.{cls}() as l:\n    print(type(l).__name__ if not isinstance(l, bool) else l)\n"))
    return cm, out


def fam_sql(tier):
    cm = "pixee:python/sql-parameterization"
    pre = (
        "import sqlite3\n"
        "connection = sqlite3.connect(':memory:')\ncursor = connection.cursor()\n"
        "cursor.execute('CREATE TABLE users (name TEXT, phone TEXT)')\n"
        "cursor.executemany('INSERT INTO users VALUES (?, ?)', [('alice', '1'), ('', ''), ('123', '123'), ('\u00fcn\u00ef', '2'), ('user_bob_system', '3'), ('bob smith', '4'), ('%s', '5')])\n"
        "def value(v):\n    return v\n"
    )
    shapes = {
        "fstring": "cursor.execute(f\"SELECT * from users WHERE name='{name}'\")",
        "concat": "cursor.execute(\"SELECT * from users WHERE name ='\" + name + \"'\")",
        "concat-affix": "cursor.execute(\"SELECT * from users WHERE name ='user_\" + name + \"_system'\")",
        "concat-two": "cursor.execute('SELECT * from users WHERE name =\\'' + name + '\\' AND phone =\\'' + phone + '\\'')",
        "percent": "cursor.execute(\"SELECT * from users WHERE name ='%s'\" % name)",
        "percent-tuple": "cursor.execute(\"SELECT * from users WHERE name ='%s' AND phone = '%s'\" % (name, phone))",
        "format": "cursor.execute(\"SELECT * from users WHERE name ='{}'\".format(name))",
        "variable": "query = \"SELECT * from users WHERE name ='\" + name + \"'\"\ncursor.execute(query)",
        "pieces": "a = \"SELECT * from users \"\nb = \"WHERE name = '\" + name\nc = \"' AND phone = '\" + phone + \"'\"\ncursor.execute(a + b + c)",
        "like": "cursor.execute(\"SELECT * from users WHERE name LIKE '%\" + name + \"%'\")",
        "fstring-two": "cursor.execute(f\"SELECT * from users WHERE name='{name}' OR phone='{phone}'\")",
        "order": "cursor.execute(\"SELECT name from users WHERE name ='\" + name + \"' ORDER BY phone\")",
        "in-function": "def q(n):\n    cursor.execute(\"SELECT * from users WHERE name ='\" + n + \"'\")\n    return cursor.fetchall()\nprint(q(name))",
    }
    out = []
    for lab, stmt in shapes.items():
        for val in ("alice", "", "123", "\u00fcn\u00ef", "bob", "bob smith", "%s", "nobody"):
            text = pre + f"name = value({val!r})\nphone = value('1')\n{stmt}\nprint(cursor.fetchall())\n"
            out.append((lab, text))
    return cm, out


def fam_imports(tier):
    out = []
    bodies = {
        "used-and-unused": "import os, sys\nimport json\nprint(os.sep, json.dumps([1]))\n",
        "from-mixed": "from os import sep, path\nfrom json import dumps, loads\nprint(sep, dumps({}))\n",
        "alias": "import os as operating, sys as system\nprint(operating.sep)\n",
        "dunder-all": "import os\nimport json\n__all__ = ['json']\nprint(os.sep)\n",
        "used-in-function": "import os\nimport json\ndef f():\n    return json.dumps(1)\nprint(f())\n",
        "used-in-annotation": "import typing\nimport os\ndef f(a: typing.Any) -> None:\n    print(a)\nf(1)\n",
        "used-in-string-annotation": "import typing\ndef f(a: 'typing.Any'):\n    return a\nprint(f(2))\n",
        "try-import": "try:\n    import json\nexcept ImportError:\n    json = None\nimport os\nprint(json is not None)\n",
        "reexport-star-safe": "import os.path\nimport os\nprint(os.path.sep)\n",
        "shadowed-later": "import json\njson = 3\nprint(json)\n",
        "used-in-decorator": "import functools\nimport os\n@functools.lru_cache\ndef f():\n    return 1\nprint(f())\n",
        "conditional-use": "import os\nimport sys\nif len(sys.argv) > 99:\n    print(os.sep)\nprint('x')\n",
        "multi-line": "from os import (\n    sep,\n    path,\n    getcwd,\n)\nprint(sep)\n",
        "semicolon": "import os; import json\nprint(json.dumps(1))\n",
        "global-in-func": "import os\ndef f():\n    global os\n    return os.sep\nprint(f())\n",
    }
    return "pixee:python/unused-imports", [(k, v) for k, v in bodies.items()]


def fam_order_imports(tier):
    bodies = {
        "unsorted": "import sys\nimport os\nimport json\nprint(os.sep, json.dumps(1), sys.maxsize > 0)\n",
        "from-and-import": "from os import sep\nimport sys\nfrom json import dumps\nimport abc\nprint(sep, dumps(1), bool(sys.path), abc.ABC.__name__)\n",
        "with-comments": "# lead\nimport sys  # s\n# mid\nimport os  # o\nprint(os.sep, sys.maxsize > 0)\n",
        "future-first": "from __future__ import annotations\nimport sys\nimport os\nprint(os.sep)\n",
        "docstring": '"""doc"""\nimport sys\nimport os\nprint(__doc__, os.sep)\n',
        "aliases": "import sys as s\nimport os as o\nprint(o.sep, s.maxsize > 0)\n",
        "duplicate": "import os\nimport os\nimport sys\nprint(os.sep)\n",
        "try-block": "import sys\ntry:\n    import zzz_nope\nexcept ImportError:\n    zzz_nope = None\nimport os\nprint(os.sep, zzz_nope)\n",
        "code-between": "import sys\nx = sys.maxsize > 0\nimport os\nprint(x, os.sep)\n",
    }
    return "pixee:python/order-imports", [(k, v) for k, v in bodies.items()]


def fam_future(tier):
    bodies = {
        "print-function": "from __future__ import print_function\nprint('a', 'b', sep='-')\n",
        "annotations-kept": "from __future__ import annotations\ndef f(a: Undefined) -> None:\n    return 1\nprint(f(1))\n",
        "mixed": "from __future__ import annotations, division, unicode_literals\ndef f(a: Undefined):\n    return 3 / 2\nprint(f(1), type('s').__name__)\n",
        "absolute": "from __future__ import absolute_import, with_statement\nprint('x')\n",
        "after-docstring": '"""d"""\nfrom __future__ import generators\nprint(__doc__)\n',
    }
    return "pixee:python/remove-future-imports", [(k, v) for k, v in bodies.items()]


def fam_abstractproperty(tier):
    pre = "import abc\n"
    bodies = {
        "basic": "class A(abc.ABC):\n    @abc.abstractproperty\n    def p(self):\n        pass\ntry:\n    A()\nexcept TypeError as e:\n    print('abstract')\nclass B(A):\n    p = 3\nprint(B().p)\n",
        "from-import": "from abc import ABC, abstractproperty\nclass A(ABC):\n    @abstractproperty\n    def p(self):\n        return 1\nclass B(A):\n    @property\n    def p(self):\n        return 2\nprint(B().p, isinstance(A.__dict__['p'], property))\n",
        "classmethod-variant": "class A(abc.ABC):\n    @abc.abstractclassmethod\n    def c(cls):\n        pass\n    @abc.abstractstaticmethod\n    def s():\n        pass\nclass B(A):\n    @classmethod\n    def c(cls):\n        return 'c'\n    @staticmethod\n    def s():\n        return 's'\nprint(B.c(), B.s())\ntry:\n    A()\nexcept TypeError:\n    print('abstract')\n",
        "abstractmethods-set": "class A(abc.ABC):\n    @abc.abstractproperty\n    def p(self):\n        pass\nprint(sorted(A.__abstractmethods__))\n",
    }
    return "pixee:python/fix-deprecated-abstractproperty", [(k, (pre if not v.startswith("from abc") else "") + v) for k, v in bodies.items()]


def fam_module_global(tier):
    bodies = {
        "assign-after": "global x\nx = 1\nprint(x)\n",
        "in-function-too": "global y\ny = 2\ndef f():\n    global y\n    y += 1\n    return y\nprint(f(), y)\n",
        "several": "global a, b\na = b = 0\nprint(a, b)\n",
        # a `global` in a class body is not redundant: it makes the class-body assignment a module global
        "class-body": "global top\ntop = 1\nclass C:\n    global level\n    level = 3\n    local_only = 4\nprint(top, level, sorted(k for k in vars(C) if not k.startswith('_')))\n",
        "class-in-function": "global top\ntop = 1\ndef make():\n    class C:\n        global made\n        made = 5\n    return C\nmake()\nprint(top, made)\n",
        "function-body": "global top\ntop = 0\ndef bump():\n    global top\n    top += 1\nbump(); bump()\nprint(top)\n",
        "nested-function": "global top\ntop = 0\ndef outer():\n    def inner():\n        global top\n        top = 7\n    inner()\nouter()\nprint(top)\n",
        "if-at-module-level": "import sys\nif sys.maxsize > 0:\n    global flag\n    flag = True\nprint(flag)\n",
    }
    return "pixee:python/remove-module-global", [(k, v) for k, v in bodies.items()]


FAMILIES = [fam_combine_startswith, fam_combine_isinstance, fam_invert_boolean, fam_use_generator, fam_use_set_literal, fam_walrus, fam_fstr,
            fam_lazy_logging, fam_logging_warn, fam_hasattr, fam_file_leak, fam_lock, fam_sql, fam_imports, fam_order_imports, fam_future, fam_abstractproperty, fam_module_global]


# --------------------------------------------------------------------------- execution


class _Timeout(Exception):
    pass


# file shapes of a member (label suffix "|shape:<name>"): the refactoring must preserve behaviour whatever the file's encoding,
# byte order mark or line-ending convention; the non-UTF-8 shapes print a non-ASCII literal so that mis-encoding is observable
SHAPES = ("latin1", "cp1252", "crlf", "bom")
SHAPED_PER_FAMILY = 3


def shape_of(label):
    return label.rsplit("|shape:", 1)[1] if "|shape:" in label else None


def shape_bytes(text: str, shape) -> bytes:
    if shape is None:
        return text.encode("utf-8")
    if shape == "crlf":
        return text.replace("\n", "\r\n").encode("utf-8")
    if shape == "bom":
        return b"\xef\xbb\xbf" + text.encode("utf-8")
    cookie, lit = {"latin1": ("latin-1", "caf\u00e9 \u00f1and\u00fa"), "cp1252": ("cp1252", "\u00c1rbol \u20ac")}[shape]
    return (f"# -*- coding: {cookie} -*-\n" + text + f'print(len("{lit}"), "{lit}".encode("unicode_escape"))\n').encode(cookie)


def shaped_members(members):
    out = list(members)
    usable = [(lab, text) for lab, text in members if text.isascii() and text.endswith("\n") and not text.startswith("#!")][:SHAPED_PER_FAMILY]
    for lab, text in usable:
        for sh in SHAPES:
            out.append((f"{lab}|shape:{sh}", text))
    return out


def observe(text):
    def on_alarm(signum, frame):
        raise _Timeout()

    buf = io.StringIO()
    old = signal.signal(signal.SIGALRM, on_alarm)
    signal.alarm(3)
    exc = None
    try:
        with contextlib.redirect_stdout(buf), contextlib.redirect_stderr(io.StringIO()):
            exec(compile(text, "<member>", "exec"), {"__name__": "__member__"})
    except BaseException as e:  # noqa
        exc = type(e).__name__
    finally:
        signal.alarm(0)
        signal.signal(signal.SIGALRM, old)
        import logging

        logging.getLogger().handlers[:] = []
    return buf.getvalue(), exc


def chunk_job(arg):
    cm, items = arg  # items: [(index, label, text)]
    files = {f"m{i:05d}.py": shape_bytes(text, shape_of(label)) for i, label, text in items}
    obs = drive.run_inproc(drive.Job(files=files, argv=["{dir}", "--codemod-include", cm], keep_before=False))
    if obs.error:
        raise core.HarnessError(obs.error)
    out = []
    for i, label, text in items:
        sh = shape_of(label)
        before_b = shape_bytes(text, sh)
        after_b = obs.final.get(f"m{i:05d}.py", b"")
        after = after_b.decode("utf-8", "replace")
        if obs.exit != 0:
            out.append((i, label, "run-failed", f"exit {obs.exit}", False))
            continue
        if after_b == before_b:
            out.append((i, label, None, None, False))
            continue
        o1, o2 = (observe(text), observe(after)) if sh is None else (observe(before_b), observe(after_b))
        if o1 != o2:
            cause = f"raises-{o2[1]}" if (o2[1] and not o1[1]) else (f"no-longer-raises-{o1[1]}" if (o1[1] and not o2[1]) else "different-output")
            out.append((i, label, f"behaviour-differs:{cause}", f"original -> {o1!r}; rewritten -> {o2!r}\n--- original\n{text}--- rewritten\n{after}", True))
        else:
            out.append((i, label, None, None, True))
    return out


def member_eval_cli(arg):
    cm, text, *rest = arg
    sh = rest[0] if rest else None
    before_b = shape_bytes(text, sh)
    obs = drive.run_cli(drive.Job(files={"m.py": before_b}, argv=["{dir}", "--codemod-include", cm]))
    if obs.error:
        raise core.HarnessError(obs.error)
    after = obs.final["m.py"].decode("utf-8", "replace")
    if sh is None:
        return after, observe(text), observe(after)
    return after, observe(before_b), observe(obs.final["m.py"])


def explore(tier, seed):
    jobs, fam_sizes = [], {}
    for fam in FAMILIES:
        cm, members = fam(tier)
        members = shaped_members(members)
        fam_sizes[cm] = len(members)
        items = [(i, lab, text) for i, (lab, text) in enumerate(members)]
        for k in range(0, len(items), 150):
            jobs.append((cm, items[k : k + 150]))
    res = drive.pmap("cmverif.checks.c08:chunk_job", drive.seed_rotate(jobs, seed))
    cands = {}
    evaluations = 0
    nontrivial = set()
    per_cm = {}
    texts = {}
    for (cm, items), rows in zip(drive.seed_rotate(jobs, seed), res):
        for (i, lab, text), (_, _, kind, detail, changed) in zip(items, rows):
            evaluations += 1
            pc = per_cm.setdefault(cm, [0, 0, 0])
            pc[0] += 1
            if changed:
                pc[1] += 1
                nontrivial.add((cm, text))
            if kind:
                pc[2] += 1
                sh = shape_of(lab)
                # a difference that only shows under a file shape is a property of the shape, not of the family row
                sig = f"{cm}|shape:{sh}|{kind}" if sh else f"{cm}|{lab.split('|args=')[0]}|{kind}"
                c = cands.get(sig)
                if c is None or len(text) < len(c[0]):
                    cands[sig] = (text, detail, cm, sh)
    known_open = {k["signature"] for k in core.load_known() if k["property"] == PROP and k["status"] == "open"}
    new = [(s, c) for s, c in sorted(cands.items()) if s not in known_open]
    confirmed = drive.pmap("cmverif.checks.c08:member_eval_cli", [(c[2], c[0], c[3]) for _, c in new])
    violations, divergence = [], []
    for (sig, (text, detail, cm, sh)), (after, o1, o2) in zip(new, confirmed):
        if o1 != o2:
            violations.append(Violation(PROP, sig, detail[:900], {"codemod": cm, "program": text, "shape": sh, "sig": sig}, 1))
        else:
            divergence.append(sig)
    for sig, (text, detail, cm, sh) in sorted(cands.items()):
        if sig in known_open:
            violations.append(Violation(PROP, sig, detail[:900], {"codemod": cm, "program": text, "shape": sh, "sig": sig}, 1))
    sample_cm, sample_members = FAMILIES[0](tier)
    coverage = {
        "evaluations": evaluations,
        "distinct_nontrivial": len(nontrivial),
        "rule": "a case is one member of a generated closed-program family (complete deterministic program printing its observations); every member is transformed by the real run() and both versions are executed; non-trivial = the codemod changed the member; distinct = distinct program text",
        "samples": [{"codemod": sample_cm, "row": sample_members[7][0], "program": sample_members[7][1]}],
        "exhaustive": True,
        "families": {cm: {"members": v[0], "changed_by_codemod": v[1], "behaviour_differs": v[2]} for cm, v in sorted(per_cm.items())},
        "family_rows_with_a_difference": len(cands),
        "file_shapes": {"shapes": list(SHAPES), "members_per_family": SHAPED_PER_FAMILY},
        "cli_divergence": divergence,
    }
    assumptions = [
        "equivalence is decided only for the generated families (operand kinds, and/or/not nesting, parenthesisation, tuple vs scalar arguments, chained comparisons, edge values); it says nothing about programs outside them",
        "observation = captured stdout and the type of a raised exception; programs run in a fresh namespace with a 3 s alarm",
        "import families observe values computed with the imported names, not side effects of importing a module (removing an unused import legitimately removes those)",
        "SQL members use benign parameter values only (no quote characters), as the property states",
    ]
    return "exploration", coverage, violations, assumptions


def replay(rp):
    after, o1, o2 = member_eval_cli((rp["codemod"], rp["program"], rp.get("shape")))
    return (o1 == o2), f"--- original\n{rp['program']}--- rewritten\n{after}original -> {o1!r}\nrewritten -> {o2!r}"
