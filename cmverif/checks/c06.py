"""C06 - SAST-driven fixes land exactly on the reported findings and carry them.

For every SAST seed (Sonar, Semgrep, DefectDojo codemods) a program with n equally fixable copies of the site is built
(multisite.py), at column offsets 0 and 4; ALL 2^n subsets S of copies are reported in a generated tool-format result
file (one project file per subset, one invocation per program), together with decoys: a foreign rule at the location
of a site, findings for a foreign file, resolved / closed status (Sonar), a finding on a neighbouring non-site line,
and an empty result file.  Oracle: copies rewritten == S (measured against the reference file in which every copy is
reported); every change entry lies in a reported copy and carries exactly the findings whose range covers its line.
"""
from __future__ import annotations

import copy
import itertools
import json

from .. import core, drive, multisite, progspace, resultfiles
from ..core import Violation

PROP = "C06"
FOREIGN = {"sonar": "python:S99999", "semgrep": "python.lang.foreign.rule-not-ours", "defectdojo": "some.other.defectdojo.title"}


PATH_TWINS = {
    "deep/pkg/twin.py": ["pkg/twin.py", "twin.py", "eep/pkg/twin.py", "other/pkg/twin.py", "deep/pkg/twin.py.py"],
    "up.py": ["nest/up.py", "pup.py", "sup/up.py"],
}
_TWIN_PATHS = set(PATH_TWINS) | {t for ts in PATH_TWINS.values() for t in ts}


def sast_seeds():
    return [s for s in progspace.load_seeds() if s.tool and s.kind == "trigger" and s.batchable]


def _set_rule(tool, doc, rule):
    d = copy.deepcopy(doc)
    for kind, e in resultfiles.findings_of(tool, d):
        if tool == "sonar":
            if "rule" in e:
                e["rule"] = rule
            if "ruleKey" in e:
                e["ruleKey"] = rule
        elif tool == "semgrep":
            e["ruleId"] = rule
        else:
            e["title"] = rule
    return d


def _rule_of(tool, e):
    if tool == "sonar":
        return e.get("rule") or e.get("ruleKey")
    if tool == "semgrep":
        return e.get("ruleId")
    return e.get("title")


def _set_status(doc, status):
    d = copy.deepcopy(doc)
    for kind, e in resultfiles.findings_of("sonar", d):
        e["status"] = status
    return d


def _move_lines(tool, doc, to_line):
    d = copy.deepcopy(doc)
    for kind, e in resultfiles.findings_of(tool, d):
        if tool == "sonar":
            tr = e["textRange"]
            tr["startLine"] = tr["endLine"] = to_line
        elif tool == "semgrep":
            for l in e["locations"]:
                r = l["physicalLocation"]["region"]
                r["startLine"] = r["endLine"] = to_line
        else:
            e["line"] = to_line
    return d


def plan(seed_id, n, wrap):
    seed = next(s for s in sast_seeds() if s.id == seed_id)
    ms = multisite.build(seed, n, wrap)
    if ms is None:
        return None
    tool = seed.tool
    files, docs, meta = {}, [], {}
    data = ms.text.encode()
    for mask in itertools.product((0, 1), repeat=n):
        path = "s_" + "".join(map(str, mask)) + ".py"
        files[path] = data
        S = [k for k in range(n) if mask[k]]
        d = multisite.doc_for(ms, path, S)
        # decoy inside every subset file: a foreign rule reported at the location of copy 0
        dec = _set_rule(tool, multisite.doc_for(ms, path, [0]), FOREIGN[tool])
        docs += [d, dec]
        meta[path] = {"S": S, "doc": d}
    allc = list(range(n))
    files["foreign_rule.py"] = data
    docs.append(_set_rule(tool, multisite.doc_for(ms, "foreign_rule.py", allc), FOREIGN[tool]))
    meta["foreign_rule.py"] = {"S": [], "doc": None}
    files["foreign_file.py"] = data
    docs.append(multisite.doc_for(ms, "ghost_elsewhere.py", allc))
    meta["foreign_file.py"] = {"S": [], "doc": None}
    files["neighbour.py"] = data
    blank = ms.blank_line_of(0)  # the blank separator line closing copy 0
    docs.append(_move_lines(tool, multisite.doc_for(ms, "neighbour.py", [0]), blank))
    meta["neighbour.py"] = {"S": [], "doc": None}
    # path twins: identical files whose paths are a component-wise suffix / string suffix / prefix-extension of a
    # reported file's path, or share only its base name - findings belong to the exact path they name and to no other
    for reported, twins in PATH_TWINS.items():
        files[reported] = data
        d = multisite.doc_for(ms, reported, allc)
        docs.append(d)
        meta[reported] = {"S": allc, "doc": d}
        for t in twins:
            files[t] = data
            meta[t] = {"S": [], "doc": None}
    if tool == "sonar":
        for st in ("RESOLVED", "CLOSED", "REVIEWED"):  # REVIEWED = the closed state of a security hotspot
            p = f"status_{st.lower()}.py"
            files[p] = data
            docs.append(_set_status(multisite.doc_for(ms, p, allc), st))
            meta[p] = {"S": [], "doc": None}
    merged = {"issues": [], "hotspots": []} if tool == "sonar" else ({"results": []} if tool == "defectdojo" else copy.deepcopy(resultfiles.SARIF_TEMPLATE))
    for d in docs:
        for kind, e in resultfiles.findings_of(tool, d):
            if tool == "semgrep":
                merged["runs"][0]["results"].append(e)
            else:
                merged[kind].append(e)
    argv, res = resultfiles.argv_and_files(tool, [merged])
    return ms, files, meta, argv, res


def _findings_covering(tool, doc, line):
    out = []
    for kind, e in resultfiles.findings_of(tool, doc):
        if tool == "sonar":
            tr = e.get("textRange")
            if tr and tr["startLine"] <= line <= tr["endLine"]:
                out.append(e.get("rule") or e.get("ruleKey"))
        elif tool == "semgrep":
            for l in e["locations"]:
                r = l["physicalLocation"]["region"]
                if r["startLine"] <= line <= r["endLine"]:
                    out.append(e["ruleId"])
        else:
            if e["line"] == line:
                out.append(e["title"])
    return sorted(out)


def eval_case(case):
    seed_id, n, wrap = case
    pl = plan(seed_id, n, wrap)
    if pl is None:
        return [], {"usable": False}
    ms, files, meta, argv, res = pl
    cm = ms.seed.codemod
    tool = ms.seed.tool
    tag = f"{cm}|{seed_id}"
    obs = drive.run_inproc(drive.Job(files=files, argv=["{dir}", "--codemod-include", cm] + argv, results=res))
    if obs.error:
        raise core.HarnessError(obs.error)
    out = []
    if obs.exit != 0:
        return [(f"{tag}|exit", f"run exited {obs.exit}: {obs.stderr[-1][-300:]}")], {"usable": True}
    data = ms.text.encode()
    ref_path = "s_" + "1" * n + ".py"
    ref_by_copy = ms.copy_changes(obs.final[ref_path])
    if ref_by_copy is None:
        return [], {"usable": False, "why": "copies cannot be told apart after the rewrite (marker statements moved)"}
    if any(not v for v in ref_by_copy.values()):
        # with every copy reported, some copy is not rewritten: the copies are not equally fixable (generator limit)
        return [], {"usable": False, "why": f"reference run rewrites copies {[c for c, v in ref_by_copy.items() if v]} of {n}"}
    results = (obs.report or {}).get("results") or []
    changes_by_path = {}
    for r in results:
        for cs in r.get("changeset", []):
            changes_by_path.setdefault(cs["path"], []).extend(cs["changes"])
    nontrivial = 0
    for path, m in meta.items():
        by_copy = ms.copy_changes(obs.final[path])
        if by_copy is None:
            out.append((f"{tag}|harness|copies-not-separable", f"{path}: marker statements were disturbed"))
            continue
        rewritten = [c for c in range(n) if by_copy[c]]
        kind_of_file = "subset" if path.startswith("s_") else ("path-twin" if path in _TWIN_PATHS else path.rsplit(".", 1)[0])
        if rewritten != m["S"]:
            extra = [c for c in rewritten if c not in m["S"]]
            missing = [c for c in m["S"] if c not in rewritten]
            what = "unreported-site-rewritten" if extra else "reported-site-not-rewritten"
            out.append((f"{tag}|{kind_of_file}|{what}", f"{path}: reported copies {m['S']}, rewritten copies {rewritten} (n={n}, column offset {4 * wrap})"))
            continue
        for c in rewritten:
            if by_copy[c] != ref_by_copy[c]:
                out.append((f"{tag}|{kind_of_file}|site-rewritten-differently", f"{path}: copy {c} changed lines {by_copy[c]} but {ref_by_copy[c]} when all copies are reported"))
        if m["S"]:
            nontrivial += 1
        chs = changes_by_path.get(path, [])
        if not m["S"]:
            if chs:
                out.append((f"{tag}|{kind_of_file}|change-entry-without-fix", f"{path}: {len(chs)} change entries although nothing was reported for it"))
            continue
        # which findings may legitimately be carried: the ones reported for this file under the codemod's own rule(s).
        # (lineNumber semantics differ between codemods - old-file line of the node vs new-file lines of inserted code -
        # so entries are judged by the findings they carry, not by where they point; C13/C15 own line numbers.)
        own_rules = {_rule_of(tool, e) for _, e in resultfiles.findings_of(tool, m["doc"])}
        carrying = 0
        carried_ids = set()
        for ch in chs:
            got = [((f.get("rule") or {}).get("id"), f.get("id")) for f in ch.get("findings") or []]
            if got:
                carrying += 1
            for rule, fid in got:
                carried_ids.add(str(fid))
                if rule == FOREIGN[tool]:
                    out.append((f"{tag}|subset|foreign-finding-carried", f"{path}: change entry at line {ch['lineNumber']} carries the foreign rule {FOREIGN[tool]}"))
                elif rule not in own_rules:
                    out.append((f"{tag}|subset|unreported-rule-carried", f"{path}: change entry at line {ch['lineNumber']} carries rule {rule}, the result file reports {sorted(own_rules)} for this file"))
        if carrying < len(m["S"]):
            out.append((f"{tag}|subset|fixed-site-without-finding", f"{path}: {len(m['S'])} sites were fixed but only {carrying} change entries carry a finding"))
        if tool == "defectdojo":
            # the format has per-finding identities: exactly the reported ones must be carried
            exp_ids = {str(e["id"]) for _, e in resultfiles.findings_of(tool, m["doc"])}
            if carried_ids != exp_ids:
                out.append((f"{tag}|subset|finding-identities-differ", f"{path}: change entries carry finding ids {sorted(carried_ids)}, the result file reports {sorted(exp_ids)}"))
    # empty result file: nothing may change
    empty = {"sonar": {"issues": []}, "semgrep": resultfiles.SARIF_TEMPLATE, "defectdojo": {"results": []}}[tool]
    a2, r2 = resultfiles.argv_and_files(tool, [empty])
    obs2 = drive.run_inproc(drive.Job(files={"only.py": data}, argv=["{dir}", "--codemod-include", cm] + a2, results=r2))
    if obs2.error:
        raise core.HarnessError(obs2.error)
    if obs2.exit != 0 or obs2.final != obs2.before:
        out.append((f"{tag}|empty-result-file|changed-or-failed", f"empty result file: exit {obs2.exit}, changed={obs2.final != obs2.before}"))
    return sorted(set(out)), {"usable": True, "files": len(meta), "nontrivial": nontrivial}


def schedule_judge(detail):
    out = []
    by_path = {}
    for res in detail["results"]:
        for cs in res.get("changeset", []):
            by_path.setdefault(cs["path"], []).extend(cs["changes"])
    for path in ("a/mod.py", "b/mod.py"):
        after = detail["tree"].get(path, b"")
        if b"random.random()" in after:
            out.append(("schedule|sonar|reported-site-not-rewritten", f"{path}: the hotspot on line 3 is reported but random.random() is still there"))
        with_finding = [c for c in by_path.get(path, []) if c.get("findings")]
        # entries without a finding (e.g. for an added import) are not judged; the one reported site is carried exactly once
        if len(with_finding) != 1:
            out.append(("schedule|sonar|change-entries-not-one-per-reported-site", f"{path}: {len(by_path.get(path, []))} change entries, {len(with_finding)} carrying a finding; one reported site"))
    return out


def cases(tier):
    out = []
    for s in sast_seeds():
        if tier == "quick":
            out += [(s.id, 2, 0), (s.id, 2, 1)]
        else:
            out += [(s.id, 2, 0), (s.id, 2, 1), (s.id, 2, 2), (s.id, 3, 0), (s.id, 3, 1)]
    return out


def explore(tier, seed):
    cs = drive.seed_rotate(cases(tier), seed)
    res = drive.pmap("cmverif.checks.c06:eval_case", cs)
    cands = {}
    usable = files = nontrivial = 0
    unusable = []
    codemods = set()
    for case, (found, info) in zip(cs, res):
        if not info.get("usable"):
            unusable.append({"case": list(case), "why": info.get("why", "multi-site program could not be built (finding in the import block or program invalid)")})
            continue
        usable += 1
        files += info.get("files", 0)
        nontrivial += info.get("nontrivial", 0)
        codemods.add(next(s.codemod for s in sast_seeds() if s.id == case[0]))
        for sig, detail in found:
            c = cands.get(sig)
            if c is None or (case[1], case[2]) < (c[0][1], c[0][2]):
                cands[sig] = (case, detail)
    known_open = {k["signature"] for k in core.load_known() if k["property"] == PROP and k["status"] == "open"}
    rps = [(sig, {"case": list(case), "sig": sig}, detail) for sig, (case, detail) in sorted(cands.items())]
    new = [r for r in rps if r[0] not in known_open]
    repro = drive.confirm_replays("cmverif.checks.c06", [r[1] for r in new])
    violations, divergence = [], []
    for (sig, rp, detail), ok in zip(new, repro):
        if ok:
            violations.append(Violation(PROP, sig, detail[:600], rp, rp["case"][1] + rp["case"][2]))
        else:
            divergence.append(sig)
    for sig, rp, detail in rps:
        if sig in known_open:
            violations.append(Violation(PROP, sig, detail[:600], rp, 1))
    # several workers: under every interleaving (<= 1 preemption) of the per-file tasks of a Sonar-driven codemod each reported
    # site is rewritten in ITS file and carried by one change entry of that file's changeset
    from . import c11a

    r = c11a.explore_cached("sonar", "line", 1)
    for h, detail in sorted(r["details"].items()):
        for sig, what in schedule_judge(detail):
            if sig in {v.signature for v in violations}:
                continue
            if sig not in known_open:
                drive.init_inproc()
                again = [dict(schedule_judge(c11a.run_once("sonar", r["outcomes"][h], "line")[2])) for _ in range(2)]
                if not all(sig in a for a in again):
                    divergence.append(sig)
                    continue
            violations.append(Violation(PROP, sig, f"under schedule {r['outcomes'][h][:30]}: {what}", {"schedule": "sonar", "choices": r["outcomes"][h], "sig": sig}, 1))
    all_sast = sorted({s.codemod for s in sast_seeds()})
    coverage = {
        "states": files + usable,
        "transitions": files + usable,
        "traces_validated_against_impl": files + usable,
        "exhaustive": True,
        "samples": [{"seed": cs[0][0], "copies": cs[0][1], "column_offset": 4 * cs[0][2], "files": "one per subset of reported copies + decoys (foreign rule, foreign file, neighbour line, resolved/closed status, unreported path twins of reported files), + an empty-result-file run"}],
        "programs": len(cs),
        "programs_usable": usable,
        "programs_unusable": unusable[:12],
        "files_judged": files,
        "subset_files_with_a_reported_site": nontrivial,
        "sast_codemods_in_corpus": all_sast,
        "sast_codemods_covered": sorted(codemods),
        "copies": [2] if tier == "quick" else [2, 3],
        "column_offsets": [0, 4] if tier == "quick" else [0, 4, 8],
        "replay_divergence": divergence,
        "schedule_outcomes_judged": {"driver": "sonar", "executions": r["executions"], "distinct_outcomes": len(r["outcomes"])},
        "rule": "state = (seed, n copies, column offset, subset of reported copies | decoy); one real run per program over all its files; non-trivial = a subset file with at least one reported copy",
    }
    assumptions = [
        "finding locations are the ones the upstream authors wrote for the seed, relocated by exact line / column shifts (no hand-written tool model)",
        "a program is usable only when, with every copy reported, every copy is rewritten (copies are equally fixable); others are counted as unusable generator limits",
        "Sonar findings carry the rule id as their id in the report, so entry findings are compared as multisets of rule ids covering the entry's line",
        "CodeQL has no codemod in this snapshot, so it is not enumerated",
    ]
    return "model_checking", coverage, violations, assumptions


def replay(rp):
    if "schedule" in rp:
        from . import c11a

        drive.init_inproc()
        found = schedule_judge(c11a.run_once("sonar", rp["choices"], "line")[2])
        return (rp["sig"] not in {s for s, _ in found}), "\n".join(f"{s}: {d}" for s, d in found) or "each reported site rewritten and carried in its own file"
    found, info = eval_case(tuple(rp["case"]))
    return (rp["sig"] not in {s for s, _ in found}), "\n".join(f"{s}: {d}" for s, d in found) or f"sites rewritten == sites reported ({info})"
