"""C10 - an unprocessable file is left intact, reported, and does not stop the run.

Fault enumeration on the real run(): a project of three triggerable files x pipeline kind (detector-less,
semgrep-detected, Sonar-driven) x fault kind (invalid UTF-8, NUL byte, syntax error, empty file, file vanishing just
before its transformer starts, transformer raising on entry, transformer raising at the first / a middle / the last
visited node) x fault position; then all pairs of faults on two different files.  A second codemod always runs after
the faulted one.  Oracle: against the fault-free run of the same project.
"""
from __future__ import annotations

import itertools
import json

from .. import core, drive
from ..core import Violation
from ..oracles import codetf

PROP = "C10"
K2 = "pixee:python/use-set-literal"
K2_LINE = b"s = set([1, 2])\n"

PIPELINES = {
    "detector-less": ("pixee:python/use-generator", b"x = sum([i for i in range(3)])\n"),
    "semgrep-detected": ("pixee:python/requests-verify", b"import requests\nrequests.get('https://u', verify=False)\n"),
    "sonar": ("sonar:python/secure-random", b"import random\nv = random.random()\n"),
}
FILES = ["f0.py", "pkg/f1.py", "f2.py"]

CONTENT_FAULTS = {
    "invalid-utf8": lambda good: good + b"y = '\xff\xfe'\n",
    "nul-byte": lambda good: good + b"z = 1\x00\n",
    "syntax-error": lambda good: good + b"def (:\n",
    "empty-file": lambda good: b"",
}
INJECTED = {
    "vanish-before-transform": {"kind": "delete-before"},
    "raise-on-entry": {"kind": "raise-entry"},
    "raise-at-first-node": {"kind": "raise-node", "at": "first"},
    "raise-at-middle-node": {"kind": "raise-node", "at": "middle"},
    "raise-at-last-node": {"kind": "raise-node", "at": "last"},
}
FAULT_KINDS = list(CONTENT_FAULTS) + list(INJECTED)


def good_src(pipeline):
    return PIPELINES[pipeline][1] + K2_LINE


def sonar_results():
    hs = []
    for i, f in enumerate(FILES):
        hs.append({"ruleKey": "python:S2245", "status": "TO_REVIEW", "component": f"proj:{f}", "key": f"FIND-{i}",
                   "textRange": {"startLine": 2, "endLine": 2, "startOffset": 4, "endOffset": 19}})
    return {"h.json": json.dumps({"hotspots": hs}).encode()}


_TCLS = {}


def _transformer_name(cm):
    """Class name of the first transformer of codemod `cm` (raise-type faults are delivered to it only)."""
    if cm not in _TCLS:
        drive.init_inproc()
        from codemodder import registry

        c = next(c for c in registry.load_registered_codemods().codemods if c.id == cm)
        _TCLS[cm] = c.transformer.transformers[0].__name__
    return _TCLS[cm]


def job(pipeline, faults, only_second=False):
    """faults: tuple of (position, fault kind)"""
    cm, _ = PIPELINES[pipeline]
    files = {f: good_src(pipeline) for f in FILES}
    plan = {"faults": []}
    for pos, kind in faults:
        if kind in CONTENT_FAULTS:
            files[FILES[pos]] = CONTENT_FAULTS[kind](good_src(pipeline))
        elif not only_second:
            spec = dict(INJECTED[kind], file=FILES[pos].split("/")[-1])
            if spec["kind"] != "delete-before":
                # the transformer of the first codemod raises; the second codemod must process the file normally
                spec["only_transformer"] = _transformer_name(cm)
            plan["faults"].append(spec)
    argv = ["{dir}", "--codemod-include", K2 if only_second else f"{cm},{K2}"]
    results = {}
    if pipeline == "sonar":
        argv += ["--sonar-hotspots-json", "{res:h.json}"]
        results = sonar_results()
    return drive.Job(files=files, argv=argv, results=results, pre_hook="cmverif.faults:install" if plan["faults"] else None, pre_hook_arg=plan, debug_logs=True)


def _per_file(report, cm):
    out = {}
    for r in (report or {}).get("results", []):
        if r["codemod"] != cm:
            continue
        for cs in r.get("changeset", []):
            out[cs["path"]] = cs
    return out


def _failed(report, cm):
    for r in (report or {}).get("results", []):
        if r["codemod"] == cm:
            return sorted(f.split("/proj/", 1)[-1] for f in r.get("failedFiles") or [])
    return []


def _unfixed(report, cm):
    for r in (report or {}).get("results", []):
        if r["codemod"] == cm:
            return r.get("unfixedFindings") or []
    return []


def judge(pipeline, faults, base, obs, second_alone=None):
    cm, _ = PIPELINES[pipeline]
    kinds = "+".join(sorted({k for _, k in faults}))
    sig = lambda v: f"{pipeline}|{kinds}|{v}"
    out = []
    if obs.exit != 0:
        return [(sig(f"exit-{obs.exit if isinstance(obs.exit, int) else 'exception'}"), f"run did not exit 0: {obs.exit}; {obs.stderr[-1][-300:]}")]
    for k, d in codetf.validate(obs.report, before=obs.before, after=obs.final, logs=obs.logs[-1]):
        out.append((sig(f"report:{k}"), d))
    faulted = {FILES[p]: k for p, k in faults}
    for f in FILES:
        if f in faulted:
            continue
        if obs.final.get(f) != base.final.get(f):
            out.append((sig("other-file-outcome-differs"), f"{f} (not faulted) ends differently than in the fault-free run: {obs.final.get(f)!r:.200} vs {base.final.get(f)!r:.200}"))
        for c in (cm, K2):
            if _per_file(obs.report, c).get(f) != _per_file(base.report, c).get(f):
                out.append((sig("other-file-changeset-differs"), f"changeset of {c} for {f} (not faulted) differs from the fault-free run"))
    fired = {f for f, _ in obs.extra.get("faults_fired", [])}
    for f, kind in faulted.items():
        vanished = kind == "vanish-before-transform"
        raise_only_first = kind in INJECTED and not vanished
        if raise_only_first:
            # only the first codemod's transformer failed: the file must end exactly as if the second codemod alone had run
            if second_alone is not None and obs.final.get(f) != second_alone.final.get(f):
                out.append((sig("later-codemod-outcome-differs-on-faulted-file"), f"{f}: the first codemod failed on it ({kind}); the following codemod should leave it as when run alone: {obs.final.get(f)!r:.150} vs {second_alone.final.get(f)!r:.150}"))
            if f in _failed(obs.report, K2):
                out.append((sig("later-codemod-lists-file-as-failed"), f"{f}: only the first codemod failed on it ({kind}) but {K2} lists it as failed too"))
        elif not vanished and obs.final.get(f) != obs.before.get(f):
            out.append((sig("faulted-file-modified"), f"{f} ({kind}) was modified: {obs.before.get(f)!r:.120} -> {obs.final.get(f)!r:.120}"))
        if kind == "empty-file":
            continue
        # was the file selected by the codemod?  detector-less: always; sonar: it has findings; semgrep: the detector flagged it
        if pipeline == "semgrep-detected":
            calls = (obs.extra.get("semgrep_calls") or [[]])[-1]
            flagged = any(c and any(f in bf for bf in c.values()) for c in calls)
            selected = flagged
        else:
            selected = True
        if kind in INJECTED and f.split("/")[-1] not in fired:
            out.append((sig("fault-not-delivered"), f"harness: injected fault {kind} for {f} never fired"))
            continue
        if kind in CONTENT_FAULTS and f not in _failed(obs.report, K2):
            # the following (detector-less) codemod selects every Python file: it cannot process this one either
            out.append((sig("later-codemod-does-not-list-unprocessable-file"), f"{f} ({kind}) cannot be parsed but {K2} does not list it in failedFiles {_failed(obs.report, K2)}"))
        if selected and f not in _failed(obs.report, cm):
            out.append((sig("not-listed-as-failed"), f"{f} ({kind}) was selected by {cm} and could not be processed but is not in failedFiles {_failed(obs.report, cm)}"))
        if pipeline == "sonar":
            key = f"FIND-{FILES.index(f)}"
            uf = _unfixed(obs.report, cm)
            if not any(u.get("path") == f for u in uf):
                out.append((sig("finding-not-reported-unfixed"), f"the finding of {f} ({kind}) is not in unfixedFindings {[(u.get('id'), u.get('path')) for u in uf]}"))
    return out


# ---- unprocessable dependency manifests: the writers must leave what they cannot read alone ------------------------
DEP_CM = "pixee:python/flask-enable-csrf-protection"
DEP_SRC = b"from flask import Flask\n\napp = Flask(__name__)\n"
MANIFEST_FAULTS = {
    "requirements.txt": {
        "invalid-utf8": b"requests==2.31.0\nclick>=8 # caf\xe9 \xff\xfe\x00\x9f\nrich\n",
        "utf16-bom": "requests==2.31.0\nclick>=8\n".encode("utf-16"),
        "utf16-no-bom": "requests==2.31.0\nclick>=8\n".encode("utf-16-le"),
        "nul-bytes": b"requests==2.31.0\n\x00\x00\x00click\n",
        "latin1": "requests==2.31.0  # d\u00e9pendance\nclick>=8\n".encode("latin-1"),
    },
    "pyproject.toml": {
        "toml-syntax-error": b"[project\nname = 'x'\ndependencies = ['requests']\n",
        "invalid-utf8": b"[project]\nname = 'x\xff\xfe'\ndependencies = ['requests']\n",
        "dependencies-not-a-list": b"[project]\nname = 'x'\ndependencies = 'requests'\n",
    },
    "setup.py": {
        "syntax-error": b"from setuptools import setup\nsetup(name='x', install_requires=['requests'\n",
        "invalid-utf8": b"from setuptools import setup\n# \xff\xfe\nsetup(name='x', install_requires=['requests'])\n",
    },
    "setup.cfg": {
        "no-section-header": b"install_requires =\n    requests\n",
        "invalid-utf8": b"[options]\n# \xff\xfe\ninstall_requires =\n    requests\n",
        "duplicate-option": b"[options]\ninstall_requires = requests\ninstall_requires = click\n",
    },
}


def manifest_cfgs(tier):
    singles = [((m, k),) for m, ks in MANIFEST_FAULTS.items() for k in ks]
    if tier != "thorough":
        return singles
    pairs = [(a[0], b[0]) for a, b in itertools.combinations(singles, 2) if a[0][0] != b[0][0]]
    return singles + pairs


def _lines_kept(before: bytes, after: bytes) -> bool:
    """Nothing of the original content was destroyed: its lines survive, in order."""
    it = iter(after.split(b"\n"))
    return all(any(x == l for x in it) for l in before.split(b"\n") if l)


def eval_manifest(cfg):
    files = {"app.py": DEP_SRC, "other.py": K2_LINE}
    base = drive.run_inproc(drive.Job(files=dict(files), argv=["{dir}", "--codemod-include", f"{DEP_CM},{K2}"], debug_logs=True))
    bad = dict(files)
    for m, k in cfg:
        bad[m] = MANIFEST_FAULTS[m][k]
    obs = drive.run_inproc(drive.Job(files=bad, argv=["{dir}", "--codemod-include", f"{DEP_CM},{K2}"], debug_logs=True))
    for o in (base, obs):
        if o.error:
            raise core.HarnessError(o.error)
    if base.exit != 0 or base.final["app.py"] == DEP_SRC:
        raise core.HarnessError(f"manifest-free run is not a usable reference (exit {base.exit})")
    kinds = "+".join(f"{m}:{k}" for m, k in cfg)
    sig = lambda v: f"manifest|{kinds}|{v}"
    out = []
    if obs.exit != 0:
        return [(sig(f"exit-{obs.exit if isinstance(obs.exit, int) else 'exception'}"), f"run did not exit 0: {obs.exit}; {obs.stderr[-1][-300:]}")]
    for k, d in codetf.validate(obs.report, before=obs.before, after=obs.final, logs=obs.logs[-1]):
        out.append((sig(f"report:{k}"), d))
    for f in files:
        if obs.final.get(f) != base.final.get(f):
            out.append((sig("source-file-outcome-differs"), f"{f} ends differently than in the run without the bad manifest"))
        for c in (DEP_CM, K2):
            if _per_file(obs.report, c).get(f) != _per_file(base.report, c).get(f):
                out.append((sig("source-changeset-differs"), f"changeset of {c} for {f} differs from the run without the bad manifest"))
    for m, k in cfg:
        b, a = obs.before[m], obs.final.get(m)
        if a is None or (a != b and not _lines_kept(b, a)):
            out.append((sig("unprocessable-manifest-content-destroyed"), f"{m} ({k}): {b!r:.120} -> {a!r:.120}"))
    return out


# ---- the same transformer faults in a fresh interpreter through the console entry point (its own logging, not the harness's)
def cli_fault_cfgs(tier):
    out = []
    for pos in (0, 1, 2) if tier == "thorough" else (1,):
        for empty in (False, True):
            for opts in ((), ("--verbose",), ("--log-format", "json")) if tier == "thorough" else ((), ("--verbose",)):
                out.append(("cli-fault", ((pos, ("empty" if empty else "message") + ":" + " ".join(opts)),)))
    return out


def eval_cli_fault(cfg):
    (pos, spec), = cfg
    empty = spec.startswith("empty:")
    opts = tuple(spec.split(":", 1)[1].split())
    cm = "pixee:python/use-generator"
    src = PIPELINES["detector-less"][1] + K2_LINE
    files = {f: src for f in FILES}
    argv = ["{dir}", "--codemod-include", f"{cm},{K2}"] + list(opts)
    plan = {"faults": [{"file": FILES[pos].split("/")[-1], "kind": "raise-entry", "empty_message": empty, "only_transformer": _transformer_name(cm)}]}
    base = drive.run_cli(drive.Job(files=files, argv=argv))
    obs = drive.run_cli(drive.Job(files=files, argv=argv, pre_hook="cmverif.faults:install", pre_hook_arg=plan))
    for o in (base, obs):
        if o.error:
            raise core.HarnessError(o.error)
    if not obs.extra.get("faults_fired"):
        raise core.HarnessError(f"fault was not delivered in the console-script run: {obs.stderr[-1][-300:]}")
    kind = "raise-on-entry" + ("-empty-message" if empty else "")
    sig = lambda v: f"console-script|{kind}|{v}"
    if obs.exit != 0:
        return [(sig(f"exit-{obs.exit}"), f"a transformer raising {'an exception without a message' if empty else 'an exception'} on {FILES[pos]} ended the run with status {obs.exit} (options {list(opts)}): {obs.stderr[-1][-400:]}")]
    out = []
    for k, d in codetf.validate(obs.report, before=obs.before, after=obs.final, logs=[l for l in obs.logs[-1]]):
        if not k.startswith("results-vs-executed"):  # the console script's log format is not parsed here
            out.append((sig(f"report:{k}"), d))
    for f in FILES:
        if f == FILES[pos]:
            if f not in _failed(obs.report, cm):
                out.append((sig("not-listed-as-failed"), f"{f} is not in failedFiles {_failed(obs.report, cm)}"))
            continue
        if obs.final.get(f) != base.final.get(f):
            out.append((sig("other-file-outcome-differs"), f"{f} ends differently than in the fault-free run"))
    return out


# ---- the codemod's own detection run dies: the run may abort; if it completes, no file ends up different from what the
# fault-free run makes of it (a fault can make a codemod do less, never more or something else)
def detector_fault_cfgs(tier):
    cms = ["pixee:python/requests-verify", "pixee:python/enable-jinja2-autoescape", "pixee:python/secure-random"]
    return [("detector-fault", ((i, exc),)) for i in range(len(cms) if tier == "thorough" else 2) for exc in ("CalledProcessError", "OSError")]


DETECTOR_SRC = {
    # only expression statements and calls (no assignment, no class): whatever the transformer does to a node it was not given,
    # it does here without tripping over its own assertions
    "pixee:python/requests-verify": b"import requests\nimport logging\nrequests.get('https://u', verify=False)\nlogging.getLogger('x').info('done')\nprint(len('abc'))\n",
    "pixee:python/enable-jinja2-autoescape": b"import jinja2\nimport logging\njinja2.Environment()\nlogging.getLogger('x').info('done')\nprint(len('abc'))\n",
    "pixee:python/secure-random": b"import random\nimport logging\nprint(random.random())\nlogging.getLogger('x').info('done')\nprint(len('abc'))\n",
}


def eval_detector_fault(cfg):
    (i, exc), = cfg
    cm = list(DETECTOR_SRC)[i]
    files = {"app.py": DETECTOR_SRC[cm], "pkg/calls_only.py": b"print(len('abc'))\nmax(1, 2)\n"}
    argv = ["{dir}", "--codemod-include", f"{cm},{K2}"]
    base = drive.run_inproc(drive.Job(files=files, argv=argv))
    obs = drive.run_inproc(drive.Job(files=files, argv=argv, pre_hook="cmverif.faults:install_detector_fault", pre_hook_arg={"exc": exc}))
    for o in (base, obs):
        if o.error:
            raise core.HarnessError(o.error)
    if base.exit != 0 or base.final["app.py"] == files["app.py"]:
        raise core.HarnessError(f"fault-free run of {cm} is not a usable reference")
    if not obs.extra.get("faults_fired"):
        raise core.HarnessError("detector fault was not delivered")
    if obs.exit != 0:
        return []  # the run aborted: nothing was claimed
    out = []
    sig = lambda v: f"detector-fails|{cm}|{v}"
    for f in files:
        if obs.final.get(f) not in (files[f], base.final.get(f)):
            out.append((sig("file-differs-from-input-and-from-fault-free-outcome"), f"{f}: {obs.final.get(f)!r:.300}"))
    # (listing the files as failed when the detector died is a design choice the property does not rule out: not judged)
    for k, d in codetf.validate(obs.report, before=obs.before, after=obs.final, logs=obs.logs[-1]):
        out.append((sig(f"report:{k}"), d))
    return out


def eval_cfg(cfg):
    if cfg[0] == "detector-fault":
        return eval_detector_fault(cfg[1])
    if cfg[0] == "cli-fault":
        return eval_cli_fault(cfg[1])
    if cfg[0] == "manifest":
        return eval_manifest(cfg[1])
    pipeline, faults = cfg
    base = drive.run_inproc(job(pipeline, ()))
    obs = drive.run_inproc(job(pipeline, faults))
    second = drive.run_inproc(job(pipeline, faults, only_second=True))
    for o in (base, obs, second):
        if o.error:
            raise core.HarnessError(o.error)
    if base.exit != 0 or any(base.final[f] == base.before[f] for f in FILES):
        raise core.HarnessError(f"fault-free run of {pipeline} is not a usable reference (exit {base.exit})")
    return [s for s in judge(pipeline, faults, base, obs, second)]


def configs(tier):
    cfgs = []
    for p in PIPELINES:
        for pos in range(3):
            for k in FAULT_KINDS:
                cfgs.append((p, ((pos, k),)))
    if tier == "thorough":
        for p in PIPELINES:
            for (a, b) in itertools.combinations(range(3), 2):
                for ka in FAULT_KINDS:
                    for kb in FAULT_KINDS:
                        cfgs.append((p, ((a, ka), (b, kb))))
    else:
        # a diagonal of pairs so that the quick tier also sees two faults in one run
        for p in PIPELINES:
            for ka, kb in zip(FAULT_KINDS, FAULT_KINDS[3:] + FAULT_KINDS[:3]):
                cfgs.append((p, ((0, ka), (2, kb))))
    return cfgs + [("manifest", c) for c in manifest_cfgs(tier)] + cli_fault_cfgs(tier) + detector_fault_cfgs(tier)


def explore(tier, seed):
    cfgs = drive.seed_rotate(configs(tier), seed)
    res = drive.pmap("cmverif.checks.c10:eval_cfg", cfgs)
    cands = {}
    for cfg, found in zip(cfgs, res):
        for sig, detail in found:
            c = cands.get(sig)
            if c is None or (len(cfg[1]), cfg) < (len(c[0][1]), c[0]):
                cands[sig] = (cfg, detail)
    harness = [s for s in cands if s.endswith("fault-not-delivered")]
    if harness:
        raise core.HarnessError(f"injected faults were not delivered: {harness[:3]} {cands[harness[0]][1]}")
    known_open = {k["signature"] for k in core.load_known() if k["property"] == PROP and k["status"] == "open"}
    new = [(s, c) for s, c in sorted(cands.items()) if s not in known_open]
    rps = [{"pipeline": c[0][0], "faults": [list(f) for f in c[0][1]], "sig": s} for s, c in new]
    repro = drive.confirm_replays("cmverif.checks.c10", rps)
    violations, divergence = [], []
    for (sig, (cfg, detail)), rp, ok in zip(new, rps, repro):
        if ok:
            violations.append(Violation(PROP, sig, f"{cfg}: {detail}"[:600], rp, len(cfg[1])))
        else:
            divergence.append(sig)
    for sig, (cfg, detail) in sorted(cands.items()):
        if sig in known_open:
            violations.append(Violation(PROP, sig, f"{cfg}: {detail}"[:600], {"pipeline": cfg[0], "faults": [list(f) for f in cfg[1]], "sig": sig}, len(cfg[1])))
    coverage = {
        "evaluations": 3 * len(cfgs),
        "distinct_nontrivial": len(set(cfgs)),
        "rule": "case = (pipeline kind, set of (file position, fault kind)); every case runs the faulted project and its fault-free twin through the real run() with a second codemod after the faulted one; all cases inject at least one fault, so all are non-trivial",
        "samples": [{"pipeline": c[0], "faults": [[FILES[p] if isinstance(p, int) else p, k] for p, k in c[1]]} for c in (cfgs[0], cfgs[len(cfgs) // 2], cfgs[-1])],
        "manifest_faults": {m: sorted(ks) for m, ks in MANIFEST_FAULTS.items()},
        "exhaustive": True,
        "fault_kinds": FAULT_KINDS,
        "pipelines": {k: v[0] for k, v in PIPELINES.items()},
        "fault_sequences": "every unprocessable manifest alone" + (" and every pair of different manifests" if tier == "thorough" else "") + "; all single faults x 3 positions" + (" + all ordered kind pairs on every pair of positions" if tier == "thorough" else " + a diagonal of 9 fault pairs per pipeline"),
        "replay_divergence": divergence,
    }
    assumptions = [
        "faults of the kinds vanish/raise are injected by wrapping LibcstTransformerPipeline.apply, LibcstResultTransformer.transform and the visitor entry points from the harness process; nothing is compiled into /repo",
        "an empty file is processable (it parses): it must simply be left alone",
        "for the semgrep-detected pipeline a broken file counts as selected only when the codemod's own detector flagged it",
        "unreadable-permission faults are not enumerated: checks run as root",
    ]
    return "fault_enumeration", coverage, violations, assumptions


def replay(rp):
    cfg = (rp["pipeline"], tuple(tuple(f) for f in rp["faults"]))
    found = eval_cfg(cfg)
    return (rp["sig"] not in {s for s, _ in found}), "\n".join(f"{s}: {d}" for s, d in found) or "other files, report and exit status as in the fault-free run"
