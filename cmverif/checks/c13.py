"""C13 - line-level include/exclude is honoured and change entries name the edited line.

For every codemod whose canonical seeds give single-line sites, a file with n copies of the site is built
(multisite.py) and, for ALL subsets E of site lines (path-exclude `file:line`) and I (path-include `file:line`),
written with relative and globbed spellings, at the project root and in a sub-directory, the codemod is run
(one invocation per codemod x mode x spelling: every subset has its own file).  The site lines are measured by a
reference run without line patterns.  Oracle: site lines rewritten == permitted sites, and for edits confined to one
physical line {change.lineNumber} == lines rewritten.
"""
from __future__ import annotations

import itertools

from .. import core, drive, multisite, progspace, resultfiles
from ..core import Violation

PROP = "C13"
SPELLINGS = ["relative", "glob-dstar", "glob-cross", "glob-star"]
# "relative+seps": relative spelling on a file whose first line carries, inside a comment, characters that str.splitlines()
# treats as line ends but Python, libcst and editors do not (form feed, U+2028, U+0085): line N is still line N
SEPS_COMMENT = "if True:  # section \x0c one \u2028 two \x85 three \x1c\n"


def candidate_seeds():
    """codemod -> its trigger seeds in corpus order; the first one that yields single-line sites is used."""
    out = {}
    for s in progspace.load_seeds():
        if s.kind == "trigger" and s.batchable and s.compiles and s.codemod not in ("pixee:python/order-imports",):
            out.setdefault(s.codemod, []).append(s)
    return out  # corpus order


def spell(spelling, path, line):
    name = path.rsplit("/", 1)[-1]
    if spelling == "relative":
        return f"{path}:{line}"
    if spelling == "glob-cross":
        # a '*' that has to span a directory separator (path patterns are fnmatch globs: '*' crosses '/')
        return f"{path.split('/')[0]}/*.py:{line}" if "/" in path else f"{path}:{line}"
    if spelling == "glob-dstar":
        return f"**/{name}:{line}" if "/" in path else f"*{name}:{line}"
    return f"*{name}:{line}"


def eval_case(case):
    """case = (codemod id, n, mode, spelling): the codemod's seeds are tried in order until one gives single-line sites."""
    if case[0] == "history":
        return hist_eval(case)
    cm_id, n, mode, spelling = case
    last = ([], {"usable": False, "why": "no seed"})
    for seed in candidate_seeds().get(cm_id, [])[:6]:
        res = _eval_seed(seed, n, mode, spelling)
        if res[1].get("usable"):
            return res
        last = res
    return last


def _eval_seed(seed, n, mode, spelling):
    seed_id = seed.id
    seps = spelling.endswith("+seps")
    desc = spelling.endswith("+desc")  # the patterns of one file are given in descending line order
    spelling = spelling.split("+")[0]
    ms = multisite.build(seed, n, wrap=1 if seps else 0)
    if ms is None:
        return [], {"usable": False, "why": "multi-site program could not be built"}
    if seps:
        if not ms.text.startswith("if True:\n"):
            return [], {"usable": False, "why": "no wrapper line to carry the comment"}
        ms.text = SEPS_COMMENT + ms.text[len("if True:\n"):]
    cm = seed.codemod
    data = ms.text.encode()

    def run(files, extra, docs_paths):
        argv = ["{dir}", "--codemod-include", cm] + extra
        results = {}
        if seed.tool:
            merged = [multisite.doc_for(ms, p, range(n)) for p in docs_paths]
            a, results = resultfiles.argv_and_files(seed.tool, merged)
            argv += a
        obs = drive.run_inproc(drive.Job(files=files, argv=argv, results=results))
        if obs.error:
            raise core.HarnessError(obs.error)
        return obs

    # reference: no line patterns -> which original lines are the sites (one line per copy, edit confined to that line)
    ref = run({"ref.py": data}, [], ["ref.py"])
    if ref.exit != 0:
        return [(f"{cm}|{seed_id}|reference-run-failed", f"exit {ref.exit}")], {"usable": True}
    by_copy = ms.copy_changes(ref.final["ref.py"])
    if by_copy is None or any(len(v) != 1 or not isinstance(v[0], int) for v in by_copy.values()):
        return [], {"usable": False, "why": f"sites are not single-line edits (changed lines per copy: {by_copy})"}
    site_lines = [ms.copy_range(c)[0] + by_copy[c][0] for c in range(n)]
    # the construct itself must sit on one physical line: the smallest statement containing the edited line is single-line
    import ast

    try:
        tree = ast.parse(ms.text)
    except SyntaxError:
        return [], {"usable": False, "why": "program only passes the parser"}
    for l in site_lines:
        stmts = [s_ for s_ in ast.walk(tree) if isinstance(s_, ast.stmt) and s_.lineno <= l <= (s_.end_lineno or s_.lineno)]
        smallest = min(stmts, key=lambda s_: (s_.end_lineno or s_.lineno) - s_.lineno, default=None)
        if smallest is None or smallest.lineno != (smallest.end_lineno or smallest.lineno):
            return [], {"usable": False, "why": f"the construct edited at line {l} spans several physical lines"}
    ref_changes = sorted(ch["lineNumber"] for r in ref.report["results"] for cs in r["changeset"] for ch in cs["changes"])
    out = []
    tag = f"{cm}|{seed_id}"
    # does the reference itself name the edited lines? (single-line edits; head edits such as added imports may add entries)
    ref_site_changes = sorted({l for l in ref_changes if l in site_lines})
    if ref_site_changes != sorted(set(site_lines)):
        out.append((f"{tag}|change-line-not-the-edited-line", f"sites edited at lines {site_lines} but change entries name {ref_changes}"))
    # all subsets, each in its own file (root level and sub-directory alternate)
    subsets = [s for r in range(n + 1) for s in itertools.combinations(range(n), r)]
    files, pats, expect = {}, [], {}
    for i, sub in enumerate(subsets):
        if mode == "include" and not sub:
            continue
        # every subset file has its own top-level directory (so that a 'dir/*.py' glob addresses exactly one file)
        path = (f"d{i}/deep/site{i}.py" if i % 2 else f"site{i}.py")
        files[path] = data
        for c in (reversed(sub) if desc else sub):
            pats.append(spell(spelling, path, site_lines[c]))
        expect[path] = sorted(set(range(n)) - set(sub)) if mode == "exclude" else sorted(sub)
        if "/" not in path and mode == "exclude" and spelling in ("relative", "glob-cross"):
            # a same-named file in a sub-directory that no pattern names: a relative pattern for the root file must not reach it
            twin = f"twin/{path}"
            files[twin] = data
            expect[twin] = list(range(n))
    flag = "--path-exclude" if mode == "exclude" else "--path-include"
    obs = run(files, [flag, ",".join(pats)] if pats else [], list(files))
    if obs.exit != 0:
        return out + [(f"{tag}|{mode}|exit", f"exit {obs.exit}: {obs.stderr[-1][-200:]}")], {"usable": True}
    changes_by_path = {}
    for r in (obs.report or {}).get("results", []):
        for cs in r["changeset"]:
            changes_by_path.setdefault(cs["path"], []).extend(c["lineNumber"] for c in cs["changes"])
    nontrivial = 0
    for path, exp in expect.items():
        got_by_copy = ms.copy_changes(obs.final[path])
        if got_by_copy is None:
            out.append((f"{tag}|harness|copies-not-separable", path))
            continue
        got = sorted(c for c in range(n) if got_by_copy[c])
        loc = "subdir" if "/" in path else "root"
        if got != exp:
            kind = "excluded-line-rewritten" if mode == "exclude" and set(got) - set(exp) else ("line-not-included-rewritten" if mode == "include" and set(got) - set(exp) else "permitted-line-not-rewritten")
            out.append((f"{tag}|{mode}|{kind}", f"[{spelling}, {loc}] {path}: patterns {[p for p in pats if p.startswith(path.split('/')[0]) or path.rsplit('/', 1)[-1] in p]} -> permitted sites {exp}, rewritten sites {got} (site lines {site_lines})"))
            continue
        nontrivial += 1
        named = sorted({l for l in changes_by_path.get(path, []) if l in site_lines})
        want = sorted({site_lines[c] for c in exp})
        if named != want:
            out.append((f"{tag}|{mode}|change-lines-differ", f"[{spelling}, {loc}] {path}: rewritten site lines {want} but change entries name {sorted(changes_by_path.get(path, []))}"))
    return sorted(set(out)), {"usable": True, "files": len(expect), "nontrivial": nontrivial}


# ---- histories in one process: what an earlier run() was told about a path must not reach a later one -------------------
HIST_SRC = b"a = set([1, 2])\nkeep = 0\nb = set([3, 4])\nimport random\nr1 = random.random()\nr2 = random.random()\n"
HIST_KINDS = {
    "detector-less": ("pixee:python/use-set-literal", (1, 3)),
    "semgrep-detected": ("pixee:python/secure-random", (5, 6)),
}


def hist_patterns(lines, tier):
    a, b = lines
    pats = [(), ("--path-exclude", f"app.py:{a}"), ("--path-exclude", f"app.py:{b}"), ("--path-include", f"app.py:{a}"), ("--path-include", f"app.py:{b}")]
    if tier == "thorough":
        pats += [("--path-exclude", f"*.py:{a}"), ("--path-include", f"app.py:{a},app.py:{b}"), ("--path-exclude", "nothing.py:1")]
    return pats


def hist_cases(tier):
    out = []
    for kind, (cm, lines) in HIST_KINDS.items():
        pats = hist_patterns(lines, tier)
        for p1, p2 in itertools.permutations(range(len(pats)), 2):
            out.append(("history", kind, p1, p2))
        if tier == "thorough":
            for p1, p2, p3 in itertools.permutations(range(5), 3):
                out.append(("history", kind, p1, p2, p3))
    return out


def _outcome(obs, k):
    cs = [(c["path"], sorted(ch["lineNumber"] for ch in c["changes"]), c["diff"]) for r in (obs.reports[k] or {}).get("results", []) for c in r["changeset"]]
    return obs.exits[k], obs.after[k].get("app.py"), cs


def hist_eval(case):
    _, kind, *idx = case
    cm, lines = HIST_KINDS[kind]
    pats = hist_patterns(lines, "thorough")
    argvs = [["{dir}", "--codemod-include", cm] + list(pats[i]) for i in idx]
    files = {"app.py": HIST_SRC}
    seq = drive.run_inproc(drive.Job(files=files, argv=argvs[0], argv_seq=argvs, restore_between=True))
    alone = drive.run_inproc(drive.Job(files=files, argv=argvs[-1]))
    for o in (seq, alone):
        if o.error:
            raise core.HarnessError(o.error)
    last = len(idx) - 1
    if _outcome(seq, last) != _outcome(alone, 0):
        return [(f"history|{kind}|run-after-other-runs-differs-from-the-same-run-alone",
                 f"{cm}: run() with {list(pats[idx[-1]]) or 'no line patterns'} after run() with {[list(pats[i]) or 'no line patterns' for i in idx[:-1]]} on the same path (files restored) changes lines {_outcome(seq, last)[2] and _outcome(seq, last)[2][0][1]} but alone {_outcome(alone, 0)[2] and _outcome(alone, 0)[2][0][1]}")], {"usable": True, "files": 1, "nontrivial": 1}
    return [], {"usable": True, "files": 1, "nontrivial": int(_outcome(alone, 0)[1] != HIST_SRC)}


def cases(tier):
    n = 2 if tier == "quick" else 3
    out = []
    for cm in sorted(candidate_seeds()):
        for mode in ("exclude", "include"):
            for sp in (SPELLINGS if tier == "thorough" else SPELLINGS[:3]) + ["relative+seps", "relative+desc"]:
                out.append((cm, n, mode, sp))
    return out + hist_cases(tier)


def explore(tier, seed):
    cs = drive.seed_rotate(cases(tier), seed)
    res = drive.pmap("cmverif.checks.c13:eval_case", cs)
    cands, unusable = {}, {}
    usable = files = nontrivial = 0
    codemods = set()
    for case, (found, info) in zip(cs, res):
        cm = case[0]
        if not info.get("usable"):
            unusable[cm] = info.get("why")
            continue
        usable += 1
        if cm != "history":
            codemods.add(cm)
        files += info.get("files", 0)
        nontrivial += info.get("nontrivial", 0)
        for sig, detail in found:
            cands.setdefault(sig, (case, detail))
    known_open = {k["signature"] for k in core.load_known() if k["property"] == PROP and k["status"] == "open"}
    rps = [(sig, {"case": list(case), "sig": sig}, detail) for sig, (case, detail) in sorted(cands.items())]
    new = [r for r in rps if r[0] not in known_open]
    repro = drive.confirm_replays("cmverif.checks.c13", [r[1] for r in new])
    violations, divergence = [], []
    for (sig, rp, detail), ok in zip(new, repro):
        if ok:
            violations.append(Violation(PROP, sig, detail[:600], rp, 1))
        else:
            divergence.append(sig)
    for sig, rp, detail in rps:
        if sig in known_open:
            violations.append(Violation(PROP, sig, detail[:600], rp, 1))
    coverage = {
        "states": files + usable,
        "transitions": 2 * usable,
        "traces_validated_against_impl": files + usable,
        "exhaustive": True,
        "samples": [{"codemod": cs[0][0], "sites": cs[0][1], "mode": cs[0][2], "spelling": cs[0][3]}],
        "cases": len(cs),
        "cases_usable": usable,
        "codemods_with_single_line_sites": sorted(codemods),
        "codemods_not_usable": unusable,
        "subset_files_judged": files,
        "subset_files_as_expected_and_line_numbers_checked": nontrivial,
        "sites_per_file": 2 if tier == "quick" else 3,
        "spellings": SPELLINGS if tier == "thorough" else SPELLINGS[:3],
        "in_process_histories": {"cases": len(hist_cases(tier)), "rule": "two (thorough: also three) run() calls in one process on the same path with different line patterns, files restored in between; the last run must equal the same run in a fresh state"},
        "replay_divergence": divergence,
        "rule": "state = (codemod, subset of site lines, include|exclude, spelling, location); every subset has its own file, one real run per (codemod, mode, spelling); site lines measured by a pattern-free reference run",
    }
    assumptions = [
        "patterns are given relative to the target or globbed, as the property says; absolute spellings are not enumerated",
        "only codemods whose seed yields exactly one rewritten line per site (measured) are judged; the others are listed as not usable",
        "change entries for lines outside the sites (e.g. an added import) are ignored",
    ]
    return "model_checking", coverage, violations, assumptions


def replay(rp):
    found, info = eval_case(tuple(rp["case"]))
    return (rp["sig"] not in {s for s, _ in found}), "\n".join(f"{s}: {d}" for s, d in found) or f"line filters honoured ({info})"
