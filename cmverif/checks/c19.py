"""C19 - regex and XML pipelines edit only their targets and preserve everything else.

The public pipeline classes are driven directly with a real CodemodExecutionContext / FileContext:
  regex: all line sequences up to length n over {matching, non-matching, matching twice, empty} x EOL shapes x pattern
         forms x finding sets (None = non-SAST pipeline, every subset of lines = SAST pipeline) x dry-run;
  XML:   documents built from a child alphabet (elements with 0-2 attributes, namespaced names, text, entity references,
         CDATA with markup characters, comments, processing instructions, nested and mixed content) x prologs x
         transformers (attribute map on a present / absent name, new element under a present / absent parent, nested new
         element) x finding sets x dry-run.
"""
from __future__ import annotations

import functools
import itertools
import json
import re
import shutil
from pathlib import Path

from .. import core, drive
from ..core import Violation
from ..oracles import udiff, xmlinfo

PROP = "C19"

# --------------------------------------------------------------------------- shared driver bits

_ST = {}


def _ctx(dry_run):
    drive.init_inproc()
    from codemodder import providers, registry
    from codemodder.context import CodemodExecutionContext
    from codemodder.project_analysis.python_repo_manager import PythonRepoManager

    if "reg" not in _ST:
        _ST["reg"], _ST["prov"] = registry.load_registered_codemods(), providers.load_providers()
    root = core.scratch_root() / "c19"
    shutil.rmtree(root, ignore_errors=True)
    root.mkdir(parents=True)
    return CodemodExecutionContext(root, dry_run, False, _ST["reg"], _ST["prov"], PythonRepoManager(root), [], [], {}, 1), root


def _block_result(first, last, fid="BLOCK", twice=False):
    """A finding whose range spans several lines (and, optionally, that has two locations starting on the same line)."""
    from codemodder.codetf import Finding, Rule
    from codemodder.result import LineInfo
    from core_codemods.sonar.results import SonarLocation, SonarResult

    locs = [SonarLocation(file=Path("f"), start=LineInfo(first, 0), end=LineInfo(last, 3))]
    if twice:
        locs.append(SonarLocation(file=Path("f"), start=LineInfo(first, 1), end=LineInfo(last, 4)))
    return SonarResult(finding_id=fid, rule_id="rule-x", locations=locs, finding=Finding(id=fid, rule=Rule(id="rule-x", name="Rule X")))


def _results(lines_cols):
    """Tool results with distinguishable finding ids at the given (line, column) starts."""
    from codemodder.codetf import Finding, Rule
    from codemodder.result import LineInfo
    from core_codemods.sonar.results import SonarLocation, SonarResult

    out = []
    for line, col in lines_cols:
        fid = f"F{line}:{col}"
        out.append(SonarResult(finding_id=fid, rule_id="rule-x", locations=[SonarLocation(file=Path("f"), start=LineInfo(line, col), end=LineInfo(line, col + 3))],
                               finding=Finding(id=fid, rule=Rule(id="rule-x", name="Rule X"))))
    return out


# --------------------------------------------------------------------------- regex

LINE_KINDS = {"match": "url = http://a.example", "keep": "keep = 1", "twice": "u = http://a http://b", "empty": ""}
EOLS = {"lf": ("\n", True), "crlf": ("\r\n", True), "nofinal": ("\n", False)}
PATTERNS = {"plain": "http://", "anchored-word": r"\bhttp://", "compiled": re.compile("http://")}


def regex_cases(tier):
    n = 3 if tier == "quick" else 4
    cases = []
    for k in range(1, n + 1):
        for seq in itertools.product(LINE_KINDS, repeat=k):
            for eol in EOLS:
                for pat in (PATTERNS if k <= 2 else ["plain"]):
                    cases.append(("regex", seq, eol, pat, None))
                    subsets = list(itertools.chain.from_iterable(itertools.combinations(range(1, k + 1), r) for r in range(k + 1)))
                    for sub in subsets if (k <= 3) else subsets[:: max(1, len(subsets) // 6)]:
                        cases.append(("regex", seq, eol, pat, sub))
                    if k >= 2 and pat == "plain":
                        # a finding spanning the whole file next to line findings; a finding with two locations on one line
                        for sub in subsets[:: max(1, len(subsets) // 4)]:
                            cases.append(("regex", seq, eol, pat, sub + ("block",)))
                            cases.append(("regex", seq, eol, pat, sub + ("twice",)))
    return cases


def regex_eval(case):
    from codemodder.codemods.regex_transformer import RegexTransformerPipeline, SastRegexTransformerPipeline
    from codemodder.file_context import FileContext

    _, seq, eol, pat, sub = case
    sep, final = EOLS[eol]
    text = sep.join(LINE_KINDS[k] for k in seq) + (sep if final else "")
    out = []
    block = sub is not None and "block" in sub
    twice = sub is not None and "twice" in sub
    if sub is not None:
        sub = tuple(x for x in sub if isinstance(x, int))
    nlines = len(seq)
    for dry in (False, True):
        ctx, root = _ctx(dry)
        f = root / "page.html"
        f.write_bytes(text.encode())
        results = None if sub is None else _results([(l, 0) for l in sub])
        if block:
            results.append(_block_result(1, nlines))
        if twice:
            results.append(_block_result(1, 1, "TWICE", twice=True))
        fc = FileContext(root, f, [], [], results if results is not None else [])
        cls = RegexTransformerPipeline if sub is None else SastRegexTransformerPipeline
        pipe = cls(PATTERNS[pat], "https://", "use https")
        try:
            cs = pipe.apply(ctx, fc, results)
        except Exception as e:
            out.append((f"regex|{'sast' if sub is not None else 'plain'}|exception:{type(e).__name__}", f"{type(e).__name__}: {e}"))
            continue
        after = f.read_bytes().decode()
        lines = text.splitlines(True)
        rx = PATTERNS[pat]
        reported = None if sub is None else set(sub) | ({1} if (block or twice) else set())
        should = [i + 1 for i, l in enumerate(lines) if re.sub(rx, "https://", l) != l and (reported is None or (i + 1) in reported)]
        expected = "".join(re.sub(rx, "https://", l) if (i + 1) in should else l for i, l in enumerate(lines))
        tag = f"regex|{'sast' if sub is not None else 'plain'}"
        if dry:
            if after != text:
                out.append((f"{tag}|dry-run-wrote", "dry run modified the file"))
        elif after != expected:
            out.append((f"{tag}|wrong-lines-edited", f"expected {expected!r} got {after!r}"))
        if (cs is None) != (not should):
            out.append((f"{tag}|changeset-presence", f"changeset {'missing' if cs is None else 'present'} although lines to edit = {should}"))
        if cs is not None:
            got_lines = sorted(c.lineNumber for c in cs.changes)
            if got_lines != should:
                out.append((f"{tag}|change-lines", f"changes name lines {got_lines}, edited lines are {should}"))
            for c in cs.changes:
                exp_f = sorted([f"F{c.lineNumber}:0"] * (sub is not None and c.lineNumber in sub) + ["BLOCK"] * block + ["TWICE"] * (twice and c.lineNumber == 1))
                got_f = sorted(x.id for x in (c.findings or []))
                if got_f != exp_f:
                    out.append((f"{tag}|change-findings", f"change at line {c.lineNumber} carries findings {got_f}, expected {exp_f}"))
            ok, err = udiff.reproduces([cs.diff], text, expected)
            if not ok:
                out.append((f"{tag}|{err[0]}", f"diff is not faithful: {err[1]}"))
        if sub is not None and not dry:
            unf = sorted(u.lineNumber for u in fc.unfixed_findings)
            exp_unf = sorted(x for l in sorted(reported) if l <= len(lines) and re.sub(rx, "https://", lines[l - 1]) == lines[l - 1]
                             for x in [l] * ((l in sub) + (block and l == 1) + (twice and l == 1) + (block and l != 1 and False)))
            if block:
                # the block finding covers every line: it is reported unfixed with each reported line that could not be edited
                exp_unf = sorted(x for l in sorted(reported) if l <= len(lines) and re.sub(rx, "https://", lines[l - 1]) == lines[l - 1]
                                 for x in [l] * ((l in sub) + 1 + (twice and l == 1)))
            if unf != exp_unf:
                out.append((f"{tag}|unfixed-findings", f"unfixed findings at lines {unf}, expected {exp_unf}"))
    return sorted(set(out)), bool(should)


# --------------------------------------------------------------------------- XML

CHILD = {
    "elem0": "<item/>",
    "elem1": '<item a="1"/>',
    "elem2": '<item a="1" b="two words"></item>',
    "ns": '<x:item xmlns:x="urn:x" x:a="1"/>',
    "text": "plain text",
    "entity": "a &amp; b &lt; c &#65;",
    "cdata": "<![CDATA[if (a < b && c) { x[0]] }]]>",
    "comment": "<!-- a comment -->",
    "pi": '<?proc data="1"?>',
    "nested": '<group><item a="1">inner</item><!-- c --></group>',
    "mixed": 'pre<item a="1">mid</item>post',
    # a start tag directly followed by a CDATA section / comment / PI / its own end tag (no character data in between)
    "wrap-cdata": "<banner><![CDATA[x < y]]></banner>",
    "wrap-comment": "<motd><!-- note --></motd>",
    "wrap-pi": '<hook><?proc data="2"?></hook>',
    "empty-pair": '<gap b="1"></gap>',
}
COMPACT = "@compact"  # first element of a child sequence: the document is written without any whitespace between nodes
PROLOG = {
    "none": "",
    "decl": '<?xml version="1.0" encoding="utf-8"?>\n',
    "doctype-system": '<!DOCTYPE cfg SYSTEM "cfg.dtd">\n',
    "doctype-public": '<!DOCTYPE cfg PUBLIC "-//X//DTD cfg//EN" "cfg.dtd">\n',
    "doctype-bare": "<!DOCTYPE cfg>\n",
    "leading-comment": "<!-- header -->\n",
    "internal-subset": '<!DOCTYPE cfg [<!ENTITY e "v">]>\n',
}
TRANSFORMS = ["attr-present", "attr-absent", "new-under-root", "new-under-group", "new-absent-parent", "new-nested"]


def xml_doc(prolog, children):
    if children and children[0] == COMPACT:
        return PROLOG[prolog] + "<cfg>" + "".join(CHILD[c] for c in children[1:]) + "</cfg>"
    return PROLOG[prolog] + "<cfg>\n" + "".join(CHILD[c] + "\n" for c in children) + "</cfg>\n"


def item_tags(text):
    """(line, col0) of every <item start tag."""
    out = []
    for i, line in enumerate(text.split("\n")):
        for m in re.finditer(r"<item[\s/>]", line):
            out.append((i + 1, m.start()))
    return out


def xml_cases(tier):
    cases = []
    kinds = list(CHILD)
    seqs = [()] + [(k,) for k in kinds] + [p for p in itertools.product(kinds, repeat=2)]
    if tier == "thorough":
        seqs += [p for p in itertools.product(kinds[:6] + ["nested", "mixed"], repeat=3)]
    seqs += [(COMPACT,) + q for q in seqs if 1 <= len(q) <= (1 if tier == "quick" else 2)]
    for seq in seqs:
        for prolog in PROLOG if len(seq) <= 1 else ["none", "decl"]:
            for tr in TRANSFORMS:
                if len(seq) == 2 and tr in ("attr-absent", "new-absent-parent") and seq[0] != seq[1]:
                    continue
                cases.append(("xml", prolog, seq, tr, None, False))
                if tr == "attr-present":
                    tags = item_tags(xml_doc(prolog, seq))
                    for r in range(len(tags) + 1):
                        for sub in itertools.combinations(range(len(tags)), r):
                            cases.append(("xml", prolog, seq, tr, sub, False))
                            if r == 1:
                                cases.append(("xml", prolog, seq, tr, sub, True))
    return cases


def _expected_events(before_ev, tr, targeted):
    """Apply the transformer's documented edit to the event stream."""
    out = []
    idx = -1
    for ev in before_ev:
        if ev[0] == "start" and ev[1] == "item":
            idx += 1
            if tr == "attr-present" and (targeted is None or idx in targeted):
                attrs = dict(ev[2])
                attrs.update({"a": "9", "c": "new"})
                ev = ("start", "item", tuple(sorted(attrs.items())))
        if ev[0] == "end":
            parent = {"new-under-root": "cfg", "new-under-group": "group", "new-nested": "cfg"}.get(tr)
            if parent and ev[1] == parent:
                if tr == "new-nested":
                    out += [("start", "outer", ()), ("start", "added", (("k", "1"),)), ("text", "v"), ("end", "added"), ("end", "outer")]
                else:
                    out += [("start", "added", (("k", "1"),)), ("text", "v"), ("end", "added")]
        out.append(ev)
    return out


def _edits_expected(before_ev, tr, targeted):
    n_items = sum(1 for e in before_ev if e[0] == "start" and e[1] == "item")
    if tr == "attr-present":
        return n_items if targeted is None else len(targeted)
    if tr in ("new-under-root", "new-nested"):
        return 1
    if tr == "new-under-group":
        return sum(1 for e in before_ev if e[0] == "end" and e[1] == "group")
    return 0


def xml_eval(case):
    from codemodder.codemods.xml_transformer import ElementAttributeXMLTransformer, NewElement, NewElementXMLTransformer, XMLTransformerPipeline
    from codemodder.file_context import FileContext

    _, prolog, seq, tr, sub, line_only = case
    text = xml_doc(prolog, seq)
    data = text.encode()
    out = []
    tag = f"xml|{tr}|{'sast' if sub is not None else 'plain'}"
    shape = "+".join(sorted(set(seq))) or "empty"
    try:
        before_ev = xmlinfo.events(data)
    except xmlinfo.NotWellFormed as e:
        raise core.HarnessError(f"generated document is not well formed: {e}: {text!r}")
    tags = item_tags(text)
    for dry in (False, True):
        ctx, root = _ctx(dry)
        f = root / "conf.xml"
        f.write_bytes(data)
        results = None if sub is None else _results([(tags[i][0], tags[i][1] + 1) for i in sub])
        fc = FileContext(root, f, [], [], results if results is not None else [])
        if tr.startswith("attr"):
            name = "item" if tr == "attr-present" else "nothere"
            factory = functools.partial(ElementAttributeXMLTransformer, name_attributes_map={name: {"a": "9", "c": "new"}}, line_only_matching=line_only)
        else:
            parent = {"new-under-root": "cfg", "new-under-group": "group", "new-absent-parent": "nothere", "new-nested": "cfg"}[tr]
            ne = NewElement(name="added", parent_name=parent, content="v", attributes={"k": "1"})
            if tr == "new-nested":
                ne = NewElement(name="outer", parent_name=parent, content=ne)
            factory = functools.partial(NewElementXMLTransformer, new_elements=[ne])
        try:
            cs = XMLTransformerPipeline(factory).apply(ctx, fc, results)
        except Exception as e:
            out.append((f"{tag}|exception:{type(e).__name__}", f"{type(e).__name__}: {e}"))
            continue
        after = f.read_bytes()
        if prolog == "internal-subset":
            # entity declarations are refused by design (defusedxml): expected failure, file untouched
            if after != data or cs is not None:
                out.append((f"{tag}|internal-subset-not-refused", "document with an internal DTD subset was modified"))
            continue
        if prolog in ("doctype-system", "doctype-public") and cs is None and after == data and fc.failures:
            # a DOCTYPE with an external id may be refused as well (defusedxml forbids external references): the file is
            # left untouched and listed as failed, which is a correct outcome; if it is accepted, it is judged below
            continue
        if line_only and sub is not None:
            lines = {tags[i][0] for i in sub}
            targeted = {i for i, t in enumerate(tags) if t[0] in lines}
        else:
            targeted = None if sub is None else set(sub)
        n_edits = _edits_expected(before_ev, tr, targeted)
        if dry:
            if after != data:
                out.append((f"{tag}|dry-run-wrote", "dry run modified the file"))
            continue
        if (cs is None) != (n_edits == 0):
            out.append((f"{tag}|changeset-presence", f"changeset {'missing' if cs is None else 'present'} with {n_edits} expected edits in {text!r}"))
        if cs is None:
            if after != data:
                out.append((f"{tag}|changed-without-changeset", "file changed but no changeset"))
            continue
        try:
            after_ev = xmlinfo.events(after)
        except xmlinfo.NotWellFormed as e:
            out.append((f"{tag}|output-not-well-formed:{prolog if prolog.startswith('doctype') else shape}", f"rewritten document is not well-formed XML: {e}: {after!r:.300}"))
            continue
        exp_ev = _expected_events(before_ev, tr, targeted)
        if after_ev != exp_ev:
            k = next((i for i, (x, y) in enumerate(zip(after_ev, exp_ev)) if x != y), min(len(after_ev), len(exp_ev)))
            got, want = (after_ev[k] if k < len(after_ev) else None), (exp_ev[k] if k < len(exp_ev) else None)
            what = (want or got)[0]
            out.append((f"{tag}|content-not-preserved:{what}", f"first differing event: got {got!r}, expected {want!r}; document {text!r:.200}"))
        if len(cs.changes) != n_edits:
            out.append((f"{tag}|change-count", f"{len(cs.changes)} changes for {n_edits} edits"))
        if tr == "attr-present":
            exp_lines = sorted(tags[i][0] for i in (range(len(tags)) if targeted is None else targeted))
            got_lines = sorted(c.lineNumber for c in cs.changes)
            if got_lines != exp_lines:
                out.append((f"{tag}|change-lines", f"changes at lines {got_lines}, edited start tags at {exp_lines}"))
            if sub is not None:
                for c in cs.changes:
                    exp_f = sorted(f"F{tags[i][0]}:{tags[i][1] + 1}" for i in sub if tags[i][0] == c.lineNumber)
                    got_f = sorted(x.id for x in (c.findings or []))
                    if got_f != exp_f:
                        out.append((f"{tag}|change-findings", f"change at line {c.lineNumber} carries {got_f}, expected {exp_f}"))
        ok, err = udiff.reproduces([cs.diff], text, after.decode())
        if not ok:
            out.append((f"{tag}|{err[0]}", f"diff is not faithful: {err[1]}"))
    return sorted(set(out)), True


# ---- plugin codemod end to end with line-only findings (DefectDojo): several findings on one line, through the result-set loader
DD_TITLE = "acme.insecure-link"


def dd_plugin_eval(case):
    """case = ("dd-plugin", pipeline, ((line, id), ...)): findings reach the pipeline through DefectDojoResultSet.from_json."""
    import functools
    import shutil

    drive.init_inproc()
    drive.reset_caches()
    from codemodder.codemods.api import Metadata, RemediationCodemod, ReviewGuidance
    from codemodder.codemods.regex_transformer import SastRegexTransformerPipeline
    from codemodder.codemods.xml_transformer import ElementAttributeXMLTransformer, XMLTransformerPipeline
    from codemodder.context import CodemodExecutionContext
    from codemodder.project_analysis.python_repo_manager import PythonRepoManager
    from codemodder import providers, registry
    from core_codemods.defectdojo.api import DefectDojoDetector

    _, pipeline, findings = case
    root = core.scratch_root() / "c19-dd"
    shutil.rmtree(root, ignore_errors=True)
    proj = root / "proj"
    if pipeline == "regex":
        name, text = "page.html", "".join(f'<a href="http://e.org/{n}">x</a>\n' for n in range(1, 7))
        transformer = SastRegexTransformerPipeline(pattern=r"http://", replacement="https://", change_description="Use https")
        ext = [".html"]
    else:
        name, text = "web.xml", "<cfg>\n" + "".join(f'<item a="1" n="{n}"/>\n' for n in range(2, 7)) + "</cfg>\n"
        transformer = XMLTransformerPipeline(functools.partial(ElementAttributeXMLTransformer, name_attributes_map={"item": {"a": "9"}}, line_only_matching=True))
        ext = [".xml"]
    drive.write_tree(proj, {name: text.encode()})
    doc = {"results": [{"id": fid, "title": DD_TITLE, "file_path": name, "line": line} for line, fid in findings]}
    (root / "dd.json").write_text(json.dumps(doc))

    class Plugin(RemediationCodemod):
        @property
        def origin(self):
            return "acme"

        @property
        def docs_module_path(self):
            return "acme.docs"

    codemod = Plugin(metadata=Metadata(name="dd-" + pipeline, summary="s", review_guidance=ReviewGuidance.MERGE_WITHOUT_REVIEW, description="d"),
                     detector=DefectDojoDetector(), transformer=transformer, default_extensions=ext, requested_rules=[DD_TITLE])
    rm = PythonRepoManager(proj)
    ctx = CodemodExecutionContext(proj, False, False, registry.load_registered_codemods(), providers.load_providers(), rm, ["*.html", "*.xml"], [], {"defectdojo": [str(root / "dd.json")]}, 1)
    codemod.apply(ctx)
    changes = [c for cs in ctx.get_changesets(codemod.id) for c in cs.changes]
    unfixed = [u.id for u in ctx.get_unfixed_findings(codemod.id)]
    carried = {}
    for c in changes:
        carried.setdefault(c.lineNumber, set()).update(str(f.id) for f in c.findings or [])
    want = {}
    for line, fid in findings:
        want.setdefault(line, set()).add(str(fid))
    out = []
    tag = f"dd-plugin|{pipeline}"
    after = (proj / name).read_text().split("\n")
    before = text.split("\n")
    edited = {i + 1 for i, (a, b) in enumerate(zip(before, after)) if a != b} if len(before) == len(after) else None
    if pipeline == "regex" and edited != set(want):
        out.append((f"{tag}|edited-lines-differ", f"lines with a finding {sorted(want)}, lines edited {sorted(edited) if edited is not None else 'line count changed'}"))
    for line, ids in sorted(want.items()):
        if carried.get(line, set()) != ids:
            missing = sorted(ids - carried.get(line, set()) - set(map(str, unfixed)))
            if missing:
                out.append((f"{tag}|finding-neither-carried-nor-unfixed", f"line {line}: findings {sorted(ids)} reported, the change carries {sorted(carried.get(line, set()))}, unfixed {unfixed}"))
    shutil.rmtree(root, ignore_errors=True)
    return out, bool(changes)


def dd_cases():
    out = []
    for pipeline in ("regex", "xml"):
        for findings in (((2, 101),), ((2, 101), (4, 102)), ((4, 102), (4, 103)), ((2, 101), (4, 102), (4, 103), (6, 104)), ((4, 102), (4, 103), (4, 105))):
            out.append(("dd-plugin", pipeline, findings))
    return out


def eval_case(case):
    if case[0] == "dd-plugin":
        return dd_plugin_eval(case)
    return regex_eval(case) if case[0] == "regex" else xml_eval(case)


def explore(tier, seed):
    sf = (xmlinfo.selftest(), udiff.selftest())
    cases = regex_cases(tier) + xml_cases(tier) + dd_cases()
    res = drive.pmap("cmverif.checks.c19:eval_case", drive.seed_rotate(cases, seed), chunksize=32)
    cands = {}
    nontrivial = 0
    for case, (found, nt) in zip(drive.seed_rotate(cases, seed), res):
        nontrivial += bool(nt)
        for sig, detail in found:
            c = cands.get(sig)
            if c is None or len(repr(case)) < len(repr(c[0])):
                cands[sig] = (case, detail)
    known_open = {k["signature"] for k in core.load_known() if k["property"] == PROP and k["status"] == "open"}
    rps = [(sig, {"case": [list(x) if isinstance(x, tuple) else x for x in case], "sig": sig}, f"{case[1:]}: {detail}") for sig, (case, detail) in sorted(cands.items())]
    new = [r for r in rps if r[0] not in known_open]
    repro = drive.confirm_replays("cmverif.checks.c19", [r[1] for r in new])
    violations, divergence = [], []
    for (sig, rp, detail), ok in zip(new, repro):
        if ok:
            violations.append(Violation(PROP, sig, detail[:600], rp, 1))
        else:
            divergence.append(sig)
    for sig, rp, detail in rps:
        if sig in known_open:
            violations.append(Violation(PROP, sig, detail[:600], rp, 1))
    # plugin codemods on both pipelines with several workers: every interleaving of the per-file tasks with <= 1 preemption
    # (line granularity in the pipeline modules) must give the outcome of the sequential run, whose edits are the findings' lines
    from . import c11a

    sched_cov = {}
    for drv in ("regex-plugin", "xml-plugin"):
        r = c11a.explore_cached(drv, "line", 1)
        sched_cov[drv] = {"executions": r["executions"], "distinct_outcomes": len(r["outcomes"]), "preemption_bound": 1}
        if len(r["outcomes"]) != 1:
            alt = [ch for h, ch in r["outcomes"].items() if h != r["root"]["hash"]][0]
            sig = f"schedule|{drv}|edits-depend-on-interleaving"
            if sig not in known_open:
                s1, h1, _ = c11a.run_once(drv, alt, "line")
                s2, h2, _ = c11a.run_once(drv, alt, "line")
                if h1 != h2 or h1 == r["root"]["hash"]:
                    divergence.append(sig)
                    continue
            violations.append(Violation(PROP, sig, f"{len(r['outcomes'])} distinct outcomes over {r['executions']} schedules of a plugin codemod on 3 files with 3 workers; e.g. schedule {alt[:30]}", {"schedule": drv, "choices": alt, "reference": r["root"]["hash"], "sig": sig}, 1))
    n_regex = sum(1 for c in cases if c[0] == "regex")
    n_dd = sum(1 for c in cases if c[0] == "dd-plugin")
    cases = [c for c in cases if c[0] != "dd-plugin"]
    coverage = {
        "states": len(cases),
        "transitions": 2 * len(cases),
        "traces_validated_against_impl": len(cases),
        "exhaustive": True,
        "samples": [{"regex": {"lines": [LINE_KINDS[k] for k in cases[40][1]], "eol": cases[40][2], "pattern": cases[40][3], "finding_lines": cases[40][4]}},
                    {"xml": xml_doc(cases[n_regex + 30][1], cases[n_regex + 30][2]), "transformer": cases[n_regex + 30][3], "targeted_start_tags": cases[n_regex + 30][4]}],
        "regex_cases": n_regex,
        "xml_cases": len(cases) - n_regex,
        "plugin_runs_with_line_only_findings": n_dd,
        "cases_with_an_edit": nontrivial,
        "regex_alphabet": {"lines": LINE_KINDS, "eols": list(EOLS), "patterns": list(PATTERNS), "max_lines": 3 if tier == "quick" else 4},
        "xml_alphabet": {"children": CHILD, "prologs": list(PROLOG), "transformers": TRANSFORMS, "max_children": 2 if tier == "quick" else 3},
        "replay_divergence": divergence,
        "plugin_codemod_schedules": sched_cov,
        "oracle_selftests": list(sf),
        "rule": "case = (content, shape, transformer, finding set); each executed twice (real and dry run) through the real pipeline classes; non-trivial = the pipeline has something to edit",
    }
    assumptions = [
        "insignificant whitespace = whitespace-only character data and leading/trailing whitespace of a run of character data; attribute order, quoting, empty-element form and an added XML declaration are not significant",
        "CDATA is compared by content (the same characters as escaped text count as preserved)",
        "NewElementXMLTransformer does not consult findings at all; the property only demands finding-restricted edits of the regex pipeline and named-element edits of the XML pipeline",
        "documents with an internal DTD subset are refused by design (defusedxml) and must be left untouched",
    ]
    return "model_checking", coverage, violations, assumptions


def replay(rp):
    if "schedule" in rp:
        from . import c11a

        drive.init_inproc()
        _, h1, _ = c11a.run_once(rp["schedule"], rp["choices"], "line")
        _, h0, _ = c11a.run_once(rp["schedule"], [], "line")
        return (h1 == h0), f"schedule {rp['choices'][:40]} -> outcome {h1}; sequential schedule -> {h0}"
    c = rp["case"]
    case = tuple(tuple(x) if isinstance(x, list) else x for x in c)
    found, _ = eval_case(case)
    return (rp["sig"] not in {s for s, _ in found}), "\n".join(f"{s}: {d}" for s, d in found) or "only the targets were edited"
