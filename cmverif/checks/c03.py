"""C03 - the diff in the report is exactly the change made on disk.

Edge invariant on every transition of three explorations:
  (a) the program space (every codemod x seed x context / file-shape dimension),
  (b) the pair histories on collision projects (several codemods touching one file / one manifest in one run),
  (c) the four manifest kinds x content alphabet x file shapes with a dependency-adding codemod.
Oracle: fold the strict unified-diff applier over the changesets naming a file, in report order, starting from
the bytes before the run (decoded as UTF-8, BOM included) == bytes after, up to one final newline; a file
without changeset is byte-identical; every changeset names a file that changed.
"""
from __future__ import annotations

from .. import core, drive, manifests_space as ms, progcheck, seqspace
from ..core import Violation
from ..oracles import udiff

PROP = "C03"


def judge_file(before: bytes | None, after: bytes | None, diffs: list[str]):
    """-> list of (kind, detail) for one file."""
    if not diffs:
        if after != before:
            return [("changed-without-changeset", "file bytes changed but no changeset names it")]
        return []
    out = []
    if after == before:
        out.append(("changeset-without-change", "a changeset names the file but its bytes did not change"))
    if before is None or after is None:
        return out + [("changeset-for-missing-file", "changeset names a file that does not exist before/after")]
    try:
        bt, at = before.decode("utf-8"), after.decode("utf-8")
    except UnicodeDecodeError:
        # not UTF-8: a Python source is text in the encoding its coding cookie declares (PEP 263) - before and after the run
        try:
            import io
            import tokenize

            enc, _ = tokenize.detect_encoding(io.BytesIO(before).readline)
            bt = before.decode(enc)
        except (SyntaxError, UnicodeDecodeError, LookupError):
            return out
        try:
            at = after.decode(enc)
        except UnicodeDecodeError:
            return out + [("diff-result-differs", f"the file was {enc} text before the run and is not decodable as {enc} afterwards")]
    ok, err = udiff.reproduces(diffs, bt, at)
    if not ok:
        kind, detail = err
        text = "reported diff does not apply to the content before the run" if kind == "diff-does-not-apply" else "applying the reported diff(s) gives different content than found on disk"
        out.append((kind, f"{text}: {detail}"))
    return out


def judge_run(before: dict, after: dict, results: list):
    diffs = {}
    for res in results or []:
        for cs in res.get("changeset", []):
            diffs.setdefault(cs["path"], []).append(cs["diff"])
    for path in sorted(set(before) | set(after) | set(diffs)):
        b, a = before.get(path), after.get(path)
        if not isinstance(b, (bytes, type(None))) or not isinstance(a, (bytes, type(None))):
            continue
        for kind, detail in judge_file(b, a, diffs.get(path, [])):
            yield path, kind, detail


def monitor(p, r):
    if r.after[0] is None:
        return
    yield from judge_file(r.before, r.after[0], [c["diff"] for c in r.cs[0]])


# --------------------------------------------------------------------------- (c) manifests


def manifest_cases(tier):
    cases = []
    reqs = ms.req_texts(1 if tier == "quick" else 2)
    cms = ["pixee:python/harden-pickle-load"] if tier == "quick" else ["pixee:python/harden-pickle-load", "pixee:python/use-defusedxml", "pixee:python/flask-enable-csrf-protection"]
    for cm in cms:
        for shp in ms.SHAPES:
            for label, text in reqs:
                cases.append((cm, "requirements.txt", label, shp))
            for kind in ("setup.cfg", "pyproject.toml", "setup.py"):
                for label in ms.KINDS[kind][0]:
                    cases.append((cm, kind, label, shp))
    return cases


def _manifest_text(kind, label):
    if kind == "requirements.txt":
        return dict(ms.req_texts(2))[label]
    return ms.KINDS[kind][0][label]


def manifest_job(case):
    cm, kind, label, shp = case
    src, _ = ms.DEP_TRIGGERS[cm]
    files = {"app.py": src, kind: ms.shape(_manifest_text(kind, label), shp)}
    return drive.Job(files=files, argv=["{dir}", "--codemod-include", cm])


def manifest_eval(case):
    obs = drive.run_inproc(manifest_job(case))
    if obs.error:
        raise core.HarnessError(obs.error)
    return _manifest_judge(case, obs)


def _manifest_judge(case, obs):
    if obs.exit != 0:
        return [("run-failed", f"exit {obs.exit}: {obs.stderr[-1][-300:]}")], False
    res = (obs.report or {}).get("results")
    found = [(f"{path}|{kind}", detail) for path, kind, detail in judge_run(obs.before, obs.final, res)]
    changed = obs.final.get(case[1]) != obs.before.get(case[1])
    return found, changed


def manifest_sig(case, kind):
    cm, mk, label, shp = case
    return f"manifest:{mk}:{label if shp == 'lf' else '*'}:{shp}|{kind.split('|')[-1]}"


FAULT_SRC = b"x = sum([i for i in range(3)])\ns = set([1, 2])\n"


def fault_cases():
    out = []
    for kind in ("write-oserror", "raise-entry", "raise-node", "delete-before"):
        for pos in range(3):
            out.append((kind, pos))
    for pos in range(2):
        out.append(("codemod-raises", pos))
    return out


def fault_eval(case):
    kind, pos = case
    names = ["a.py", "pkg/b.py", "z.py"]
    files = {n: FAULT_SRC for n in names}
    cms = ["pixee:python/use-generator", "pixee:python/use-set-literal"]
    if kind == "codemod-raises":
        job = drive.Job(files=files, argv=["{dir}", "--codemod-include", ",".join(cms)], pre_hook="cmverif.faults:install_codemod_fault", pre_hook_arg={"codemod": cms[pos]})
    else:
        job = drive.Job(files=files, argv=["{dir}", "--codemod-include", ",".join(cms)], pre_hook="cmverif.faults:install",
                        pre_hook_arg={"faults": [{"file": names[pos].split("/")[-1], "kind": kind, "at": "last", "only_transformer": None}]})
    obs = drive.run_inproc(job)
    if obs.error:
        raise core.HarnessError(obs.error)
    if obs.exit != 0 or obs.report is None:
        return [], 0  # the run did not complete: no report to be faithful
    before = dict(obs.before)
    if kind == "delete-before":
        before.pop(names[pos], None)
    after = {k: v for k, v in obs.final.items()}
    found = [(p_, k_, d_) for p_, k_, d_ in judge_run(before, after, obs.report.get("results")) if not (kind == "delete-before" and p_ == names[pos])]
    return found, 1


def explore(tier, seed):
    sf = udiff.selftest()
    coverage, violations = progcheck.run_monitor(
        PROP, tier, seed, monitor, sig_fn=progcheck.sig_by_context,
        describe="Oracle: strict unified-diff fold of the reported changesets over the bytes before == bytes after (mod one final newline).",
    )
    # (b) pair histories
    pairs, hit, wall = seqspace.explore_pairs(tier, seed)
    known_open = {k["signature"] for k in core.load_known() if k["property"] == PROP and k["status"] == "open"}
    cands = {}
    n_files = 0
    for (k1, k2), rec in sorted(pairs.items()):
        for name, before, lite in (("batch", rec["files"], rec["batch"]), ("chain1", rec["files"], rec["chain"][0]), ("chain2", rec["chain"][0]["tree"], rec["chain"][1])):
            n_files += len(lite["tree"])
            for path, kind, detail in judge_run(before, lite["tree"], lite["results"]):
                cands.setdefault(f"seq|{k1}>{k2}|{path}|{kind}", ((k1, k2), name, path, kind, detail))
    new = [(s, c) for s, c in sorted(cands.items()) if s not in known_open]
    confirmed = drive.pmap("cmverif.seqspace:pair_job_cli", [c[0] for _, c in new])
    divergence = []
    for (sig, (pair, name, path, kind, detail)), rec in zip(new, confirmed):
        again = set()
        for nm, before, lite in (("batch", rec["files"], rec["batch"]), ("chain1", rec["files"], rec["chain"][0]), ("chain2", rec["chain"][0]["tree"], rec["chain"][1])):
            again |= {(nm, p_, k_) for p_, k_, _ in judge_run(before, lite["tree"], lite["results"])}
        if (name, path, kind) in again:
            violations.append(Violation(PROP, sig, f"{name} of {pair}: {path}: {detail}"[:600], {"sequence": True, "pair": list(pair), "step": name, "path": path, "kind": kind}, 2))
        else:
            divergence.append(sig)
    for sig, (pair, name, path, kind, detail) in sorted(cands.items()):
        if sig in known_open:
            violations.append(Violation(PROP, sig, f"{name} of {pair}: {path}: {detail}"[:600], {"sequence": True, "pair": list(pair), "step": name, "path": path, "kind": kind}, 2))
    # (c) manifests
    cases = drive.seed_rotate(manifest_cases(tier), seed)
    mres = drive.pmap("cmverif.checks.c03:manifest_eval", cases, chunksize=4)
    mchanged = 0
    mcands = {}
    for case, (found, changed) in zip(cases, mres):
        mchanged += bool(changed)
        for kind, detail in found:
            sig = manifest_sig(case, kind)
            c = mcands.get(sig)
            if c is None or case < c[0]:
                mcands[sig] = (case, kind, detail)
    for sig, (case, kind, detail) in sorted(mcands.items()):
        if sig not in known_open:
            o1, o2 = drive.run_cli(manifest_job(case)), drive.run_cli(manifest_job(case))
            k1 = {k for k, _ in _manifest_judge(case, o1)[0]}
            k2 = {k for k, _ in _manifest_judge(case, o2)[0]}
            if kind not in k1 or kind not in k2:
                divergence.append(sig)
                continue
        violations.append(Violation(PROP, sig, f"{case}: {detail}"[:600], {"manifest_case": list(case), "kind": kind}, 1))
    # (d) faults: IF a run completes although a write / transformer / whole codemod failed, the report must still be the truth
    # about the disk - no file changed without a changeset, no changeset for an unchanged file, diffs still apply
    fcases = fault_cases()
    fres = drive.pmap("cmverif.checks.c03:fault_eval", fcases)
    completed = 0
    for case, (found, done) in zip(fcases, fres):
        completed += done
        for path, kind, detail in found:
            sig = f"fault:{case[0]}:{case[1]}|{kind}"
            if sig in {v.signature for v in violations}:
                continue
            if sig not in known_open:
                again = [{(p_, k_) for p_, k_, _ in fault_eval(case)[0]} for _ in range(2)]
                if not all((path, kind) in a for a in again):
                    divergence.append(sig)
                    continue
            violations.append(Violation(PROP, sig, f"{case}: {path}: {detail}"[:600], {"fault_case": list(case), "path": path, "kind": kind}, 1))
    coverage["fault_histories"] = {"cases": len(fcases), "runs_that_completed": completed}
    coverage["states"] += 3 * len(pairs) + len(cases)
    coverage["transitions"] += 3 * len(pairs) + len(cases)
    coverage["traces_validated_against_impl"] += 3 * len(pairs) + len(cases)
    coverage["pair_histories"] = {"pairs": len(pairs), "files_judged": n_files, "cache_hit": hit, "candidates": len(cands)}
    coverage["manifest_cases"] = {"cases": len(cases), "manifest_changed": mchanged, "shapes": ms.SHAPES, "candidates": len(mcands)}
    coverage["cli_divergence"] = divergence
    coverage["oracle_selftest"] = sf
    assumptions = [
        "a diff is applied the way patch(1) reads it: records separated by LF only, exact context match; the only tolerance is one final newline",
        "bytes are compared exactly; the diff is applied to the UTF-8 decoding including a BOM, because that is what a consumer of the report has",
        "files that are not valid UTF-8 are out of scope (C10)",
    ]
    return "model_checking", coverage, violations, assumptions


def replay(rp):
    if rp.get("sequence"):
        rec = seqspace.pair_job_cli(tuple(rp["pair"]))
        out = []
        for nm, before, lite in (("batch", rec["files"], rec["batch"]), ("chain1", rec["files"], rec["chain"][0]), ("chain2", rec["chain"][0]["tree"], rec["chain"][1])):
            out += [(nm, p_, k_, d_) for p_, k_, d_ in judge_run(before, lite["tree"], lite["results"])]
        hit = [o for o in out if (o[0], o[1], o[2]) == (rp["step"], rp["path"], rp["kind"])]
        return (not hit), "\n".join(map(str, out)) or "all diffs compose to the content on disk"
    if rp.get("fault_case"):
        found, done = fault_eval(tuple(rp["fault_case"]))
        return ((rp["path"], rp["kind"]) not in {(p_, k_) for p_, k_, _ in found}), "\n".join(map(str, found)) or f"report faithful (run completed: {bool(done)})"
    if rp.get("manifest_case"):
        case = tuple(rp["manifest_case"])
        obs = drive.run_cli(manifest_job(case))
        found, _ = _manifest_judge(case, obs)
        txt = [f"{k}: {d}" for k, d in found]
        txt.append("--- before\n" + repr(obs.before.get(case[1])))
        txt.append("--- after\n" + repr(obs.final.get(case[1])))
        return (rp["kind"] not in {k for k, _ in found}), "\n".join(txt)
    return progcheck.replay_program(rp, monitor)
