"""C20 - the exit status tells the caller what happened.

Explicit enumeration of argument vectors composed from labelled fragments (so the expected class is known by
construction), in all orders, crossed with run-time conditions (target directory, result files, AI-client
environment, output path), against the decision table ref_exit_status (DESIGN.md Appendix E).  The bulk runs
through codemodder.run() in worker processes; every fragment and every run-time condition class is also executed
through the real console entry point (status of the OS process).
"""
from __future__ import annotations

import itertools
import json

from .. import core, drive
from ..core import Violation

PROP = "C20"

SRC = b"def f(xs):\n    return sum([x for x in xs])\n"
BASE_INCLUDE = ("valid-include", ["--codemod-include", "pixee:python/use-generator"])

# label -> (class, tokens).  class: valid | include | exclude | info | immediate | deferred | tail (must be last)
FRAGMENTS = {
    "dry-run": ("valid", ["--dry-run"]),
    "no-dry-run": ("valid", ["--no-dry-run"]),
    "verbose-off": ("valid", ["--no-verbose"]),
    "workers": ("valid", ["--max-workers", "2"]),
    # boundary values: either accepted (status 0, report written) or rejected as an invalid argument (3) - nothing else
    "workers-zero": ("lenient", ["--max-workers", "0"]),
    "workers-negative": ("lenient", ["--max-workers", "-1"]),
    "workers-large": ("valid", ["--max-workers", "64"]),
    "log-json": ("valid", ["--log-format", "json"]),
    "log-human": ("valid", ["--log-format", "human"]),
    "project": ("valid", ["--project-name", "demo"]),
    "path-include": ("valid", ["--path-include", "*.py"]),
    "path-exclude": ("valid", ["--path-exclude", "nothing/**"]),
    "format-codetf": ("valid", ["--output-format", "codetf"]),
    "format-diff": ("valid", ["--output-format", "diff"]),
    "include2": ("include", ["--codemod-include", "pixee:python/use-set-literal"]),
    "include-unknown": ("include", ["--codemod-include", "pixee:python/nope"]),
    "exclude": ("exclude", ["--codemod-exclude", "pixee:python/secure-random"]),
    "help": ("info", ["--help"]),
    "version": ("info", ["--version"]),
    "list": ("info", ["--list"]),
    "describe": ("info", ["--describe"]),
    "bad-workers": ("immediate", ["--max-workers", "many"]),
    "bad-log-format": ("immediate", ["--log-format", "xml"]),
    "bad-output-format": ("immediate", ["--output-format", "pdf"]),
    "unknown-option": ("deferred", ["--no-such-option"]),
    "extra-positional": ("deferred", ["second_dir"]),
    "missing-operand": ("tail", ["--project-name"]),
    "missing-operand-int": ("tail", ["--max-workers"]),
}

EMPTY_SARIF = lambda tool: json.dumps({"version": "2.1.0", "runs": [{"tool": {"driver": {"name": tool, "rules": []}}, "results": []}]}).encode()

# run-time condition dimensions; value 0 is canonical
DIRS = ["exists", "missing", "is-file"]
MULTI_SARIF = lambda *tools: json.dumps({"version": "2.1.0", "runs": [{"tool": {"driver": {"name": t, "rules": []}}, "results": []} for t in tools]}).encode()
RESULTS = ["none", "sonar-present", "sarif-present", "sonar-missing", "sarif-missing", "hotspots-missing", "defectdojo-missing", "sarif-same-tool-twice", "sarif-two-tools",
           # documents holding runs of several tools: one alone is fine; together with another input of a tool it contains,
           # two inputs come from the same tool (whichever run of the merged document that tool is, whichever file comes first)
           "sarif-merged-alone", "sarif-merged-then-second-tool", "sarif-second-tool-then-merged", "sarif-merged-then-first-tool", "sarif-two-merged"]
# "both set" for the OpenAI clients is not enumerated: constructing the client fails in this sandbox with a
# library-version TypeError (openai vs httpx 'proxies'), which is an artefact of the image, not of codemodder
AI = ["unset", "azure-key-only", "azure-endpoint-only", "llama-key-only", "llama-endpoint-only", "llama-both",
      # a variable that is present but empty is not a configured value (what `VAR=${MISSING}` expands to)
      "azure-key-empty", "azure-endpoint-empty", "llama-key-empty", "llama-endpoint-empty", "azure-both-empty"]
OUTPUTS = ["writable", "none", "missing-parent", "is-directory", "parent-is-file",
           # writable targets that are not fresh regular files: the report can be written, so the run completes with 0
           "existing-file", "symlink-to-file", "fifo-with-reader", "dev-null"]
OUT_KIND = {"existing-file": "existing", "symlink-to-file": "symlink", "fifo-with-reader": "fifo"}


def ai_env(kind):
    env = {}
    if kind.startswith("azure"):
        if kind in ("azure-key-only", "azure-both"):
            env["CODEMODDER_AZURE_OPENAI_API_KEY"] = "k"
        if kind in ("azure-endpoint-only", "azure-both"):
            env["CODEMODDER_AZURE_OPENAI_ENDPOINT"] = "https://example.invalid"
    if kind.startswith("llama"):
        if kind in ("llama-key-only", "llama-both"):
            env["CODEMODDER_AZURE_LLAMA_API_KEY"] = "k"
        if kind in ("llama-endpoint-only", "llama-both"):
            env["CODEMODDER_AZURE_LLAMA_ENDPOINT"] = "https://example.invalid"
    if kind == "openai-key":
        env["CODEMODDER_OPENAI_API_KEY"] = "k"
    if kind == "azure-key-empty":
        env.update({"CODEMODDER_AZURE_OPENAI_API_KEY": "", "CODEMODDER_AZURE_OPENAI_ENDPOINT": "https://example.invalid"})
    if kind == "azure-endpoint-empty":
        env.update({"CODEMODDER_AZURE_OPENAI_API_KEY": "k", "CODEMODDER_AZURE_OPENAI_ENDPOINT": ""})
    if kind == "llama-key-empty":
        env.update({"CODEMODDER_AZURE_LLAMA_API_KEY": "", "CODEMODDER_AZURE_LLAMA_ENDPOINT": "https://example.invalid"})
    if kind == "llama-endpoint-empty":
        env.update({"CODEMODDER_AZURE_LLAMA_API_KEY": "k", "CODEMODDER_AZURE_LLAMA_ENDPOINT": ""})
    if kind == "azure-both-empty":
        env.update({"CODEMODDER_AZURE_OPENAI_API_KEY": "", "CODEMODDER_AZURE_OPENAI_ENDPOINT": ""})
    return env


def build(cfg):
    """cfg = (frag labels tuple, dir_at_end, has_dir, d, r, a, o) -> (Job, scan list)"""
    frags, dir_at_end, d, r, a, o = cfg
    toks = []
    scan = []
    seq = [BASE_INCLUDE] + [(lab, FRAGMENTS[lab]) for lab in frags]
    body = []
    for item in seq:
        if item is BASE_INCLUDE:
            cls, t = "include", item[1]
        else:
            cls, t = item[1]
        body.append((cls, t))
    dir_tok = {"exists": "{dir}", "missing": "{scratch}/no_such_dir", "is-file": "{res:afile}"}[d]
    results = {"afile": b"not a directory\n"}
    rtoks = []
    if r == "sonar-present":
        rtoks = ["--sonar-issues-json", "{res:issues.json}"]
        results["issues.json"] = b'{"issues": []}'
    elif r == "sarif-present":
        rtoks = ["--sarif", "{res:a.sarif}"]
        results["a.sarif"] = EMPTY_SARIF("Semgrep OSS")
    elif r == "sonar-missing":
        rtoks = ["--sonar-issues-json", "{scratch}/missing.json"]
    elif r == "hotspots-missing":
        rtoks = ["--sonar-hotspots-json", "{scratch}/missing.json"]
    elif r == "defectdojo-missing":
        rtoks = ["--defectdojo-findings-json", "{scratch}/missing.json"]
    elif r == "sarif-missing":
        rtoks = ["--sarif", "{scratch}/missing.sarif"]
    elif r == "sarif-same-tool-twice":
        rtoks = ["--sarif", "{res:a.sarif},{res:b.sarif}"]
        results["a.sarif"] = EMPTY_SARIF("Semgrep OSS")
        results["b.sarif"] = EMPTY_SARIF("semgrep")
    elif r.startswith("sarif-merged") or r in ("sarif-second-tool-then-merged", "sarif-two-merged"):
        results["m.sarif"] = MULTI_SARIF("Semgrep OSS", "CodeQL")
        results["c.sarif"] = EMPTY_SARIF("CodeQL")
        results["a.sarif"] = EMPTY_SARIF("Semgrep OSS")
        results["m2.sarif"] = MULTI_SARIF("CodeQL", "Semgrep OSS")
        names = {"sarif-merged-alone": ["m"], "sarif-merged-then-second-tool": ["m", "c"], "sarif-second-tool-then-merged": ["c", "m"],
                 "sarif-merged-then-first-tool": ["m", "a"], "sarif-two-merged": ["m", "m2"]}[r]
        rtoks = ["--sarif", ",".join("{res:%s.sarif}" % n for n in names)]
    elif r == "sarif-two-tools":
        rtoks = ["--sarif", "{res:a.sarif},{res:c.sarif}"]
        results["a.sarif"] = EMPTY_SARIF("Semgrep OSS")
        results["c.sarif"] = EMPTY_SARIF("CodeQL")
    argv = []
    if not dir_at_end:
        argv.append(dir_tok)
    for cls, t in body:
        argv += t
    # result options go before a trailing missing-operand fragment
    tail = []
    if body and body[-1][0] == "tail":
        tail = body[-1][1]
        argv = argv[: len(argv) - len(tail)]
    argv += rtoks
    if dir_at_end:
        argv.append(dir_tok)
    out_path = {"missing-parent": "{scratch}/nodir/out.codetf", "is-directory": "{scratch}/res", "parent-is-file": "{res:afile}/out.codetf", "dev-null": "/dev/null"}.get(o)
    job = drive.Job(files={"app.py": SRC}, argv=argv + tail, results=results, env=ai_env(a), output=(o != "none"), out_path=out_path, out_kind=OUT_KIND.get(o))
    if tail and o != "none":
        # keep the missing-operand fragment last: --output goes before it
        job.output = False
        p = out_path or "{out}"
        job.argv = argv + ["--output", p] + tail
        job.out_path = out_path
    return job, [c for c, _ in body]


def ref_exit_status(cfg):
    """-> (set of acceptable statuses, report_must_exist, why)"""
    frags, dir_at_end, d, r, a, o = cfg
    classes = ["include"] + [FRAGMENTS[l][0] for l in frags]
    seen_inc = seen_exc = False
    deferred = False
    for c in classes:
        if c == "info":
            return {0}, False, "info action"
        if c in ("immediate", "tail"):
            return {3}, False, "argument error"
        if c == "include":
            if seen_exc:
                return {3}, False, "include after exclude"
            seen_inc = True
        if c == "exclude":
            if seen_inc:
                return {3}, False, "exclude after include"
            seen_exc = True
        if c == "deferred":
            deferred = True
    if deferred:
        return {3}, False, "deferred argument error"
    applicable = set()
    if d == "missing":
        applicable.add(1)
    if r in ("sonar-missing", "sarif-missing", "hotspots-missing", "defectdojo-missing", "sarif-same-tool-twice", "sarif-merged-then-second-tool",
             "sarif-second-tool-then-merged", "sarif-merged-then-first-tool", "sarif-two-merged"):
        applicable.add(1)
    if a in ("azure-key-only", "azure-endpoint-only", "llama-key-only", "llama-endpoint-only", "azure-key-empty", "azure-endpoint-empty", "llama-key-empty", "llama-endpoint-empty"):
        applicable.add(3)
    if o in ("missing-parent", "is-directory", "parent-is-file"):
        applicable.add(2)
    if d == "is-file":
        # undocumented: a regular file as target; accept success or "cannot be read"
        return (applicable | {0, 1}), False, "target is a regular file (don't care)"
    lenient = "lenient" in classes
    if not applicable:
        if lenient:
            return {0, 3}, False, "boundary value of an option: accepted or rejected as an argument error"
        return {0}, o in ("writable", "existing-file", "symlink-to-file", "fifo-with-reader"), "completed run"
    return (applicable | {3}) if lenient else applicable, False, "run-time conditions %s" % sorted(applicable)


def judge(cfg, obs):
    acc, must_exist, why = ref_exit_status(cfg)
    out = []
    frags, dir_at_end, d, r, a, o = cfg
    dev = [f"{n}:{v}" for n, v, c0 in (("dir", d, "exists"), ("results", r, "none"), ("ai", a, "unset"), ("output", o, "writable")) if v != c0]
    cls = "|".join(dev + ["args:" + ("+".join(sorted({FRAGMENTS[l][0] for l in frags})) or "valid")])
    code = obs.exit
    if not isinstance(code, int):
        code = 1  # an uncaught exception ends the process with status 1
    if code not in acc:
        out.append((f"{cls}|exit-{code if isinstance(code, int) else 'exception'}-expected-{'/'.join(map(str, sorted(acc)))}", f"exit status {code}, expected {sorted(acc)} ({why}); stderr: {obs.stderr[-1][-200:]!r}"))
    if code != 0 and obs.report is not None:
        out.append((f"{cls}|nonzero-with-report", f"exit status {code} although the report was written"))
    if code == 0 and must_exist and obs.report is None:
        out.append((f"{cls}|zero-without-report", "exit status 0 but --output was given and no report exists"))
    return out


def eval_cfg(cfg):
    job, _ = build(cfg)
    obs = drive.run_inproc(job)
    if obs.error:
        raise core.HarnessError(obs.error)
    return judge(cfg, obs), (obs.exit if isinstance(obs.exit, int) else 1)


def eval_cfg_cli(cfg):
    job, _ = build(cfg)
    obs = drive.run_cli(job)
    if obs.error:
        raise core.HarnessError(obs.error)
    return judge(cfg, obs), obs.exit


def vectors(maxlen):
    labels = list(FRAGMENTS)
    out = [()]
    for k in range(1, maxlen + 1):
        for combo in itertools.permutations(labels, k):
            # a missing-operand fragment is only meaningful as the last token
            if any(FRAGMENTS[l][0] == "tail" for l in combo[:-1]):
                continue
            out.append(combo)
    return out


def configs(tier):
    cfgs = []
    canon = ("exists", "none", "unset", "writable")
    for v in vectors(2 if tier == "quick" else 3):
        for dir_at_end in (False, True):
            if tier == "thorough" and len(v) == 3 and dir_at_end:
                continue
            cfgs.append((v, dir_at_end) + canon)
    # run-time conditions: every single deviation, then every pair of deviations, with 0-1 fragments
    dims = [DIRS, RESULTS, AI, OUTPUTS]
    singles = []
    for i, dim in enumerate(dims):
        for val in dim[1:]:
            c = list(canon)
            c[i] = val
            singles.append(tuple(c))
    pairs = []
    for i, j in itertools.combinations(range(4), 2):
        for vi in dims[i][1:]:
            for vj in dims[j][1:]:
                c = list(canon)
                c[i], c[j] = vi, vj
                pairs.append(tuple(c))
    frag1 = [(), ("dry-run",), ("help",), ("unknown-option",), ("bad-workers",), ("exclude",), ("workers",), ("workers-zero",)]
    for c in singles:
        for v in frag1:
            cfgs.append((v, False) + c)
    for c in pairs:
        cfgs.append(((), False) + c)
    if tier == "thorough":
        for c in pairs:
            for v in frag1[1:]:
                cfgs.append((v, False) + c)
        for i, j, k in itertools.combinations(range(4), 3):
            for vi in dims[i][1:]:
                for vj in dims[j][1:]:
                    for vk in dims[k][1:]:
                        c = list(canon)
                        c[i], c[j], c[k] = vi, vj, vk
                        cfgs.append(((), False) + tuple(c))
    return list(dict.fromkeys(cfgs))


def explore(tier, seed):
    cfgs = drive.seed_rotate(configs(tier), seed)
    res = drive.pmap("cmverif.checks.c20:eval_cfg", cfgs, chunksize=8)
    cands = {}
    exits = {}
    for cfg, (found, code) in zip(cfgs, res):
        exits[str(code)] = exits.get(str(code), 0) + 1
        for sig, detail in found:
            dev = len(cfg[0]) + sum(1 for x, y in zip(cfg[2:], ("exists", "none", "unset", "writable")) if x != y)
            c = cands.get(sig)
            if c is None or (dev, cfg) < (c[0], c[1]):
                cands[sig] = (dev, cfg, detail)
    known_open = {k["signature"] for k in core.load_known() if k["property"] == PROP and k["status"] == "open"}
    violations, divergence = [], []
    new = [(sig, c) for sig, c in sorted(cands.items()) if sig not in known_open]
    again = drive.pmap("cmverif.checks.c20:eval_cfg_cli", [c[1] for _, c in new] * 2)
    for k, (sig, (dev, cfg, detail)) in enumerate(new):
        s1 = {s for s, _ in again[k][0]}
        s2 = {s for s, _ in again[k + len(new)][0]}
        if sig not in s1 or sig not in s2:
            divergence.append(sig)
            continue
        violations.append(Violation(PROP, sig, f"{cfg}: {detail}"[:600], {"cfg": [list(cfg[0])] + list(cfg[1:]), "sig": sig}, dev))
    for sig, (dev, cfg, detail) in sorted(cands.items()):
        if sig in known_open:
            violations.append(Violation(PROP, sig, f"{cfg}: {detail}"[:600], {"cfg": [list(cfg[0])] + list(cfg[1:]), "sig": sig}, dev))
    # every fragment and every run-time condition class through the real console script
    canon = ("exists", "none", "unset", "writable")
    cli_cfgs = [((l,), False) + canon for l in FRAGMENTS]
    for i, dim in enumerate([DIRS, RESULTS, AI, OUTPUTS]):
        for val in dim[1:]:
            c = list(canon)
            c[i] = val
            cli_cfgs.append(((), False) + tuple(c))
    cli_res = drive.pmap("cmverif.checks.c20:eval_cfg_cli", cli_cfgs)
    inproc = dict(zip(cfgs, res))
    conf = 0
    for cfg, (found, code) in zip(cli_cfgs, cli_res):
        if cfg in inproc and inproc[cfg][1] != code:
            raise core.HarnessError(f"in-process and CLI exit status differ on {cfg}: {inproc[cfg][1]} vs {code}")
        conf += 1
        for sig, detail in found:
            if sig not in cands and sig not in known_open:
                violations.append(Violation(PROP, sig, f"[cli] {cfg}: {detail}"[:600], {"cfg": [list(cfg[0])] + list(cfg[1:]), "sig": sig}, 1))
    coverage = {
        "states": len(cfgs),
        "transitions": len(cfgs) + len(cli_cfgs),
        "traces_validated_against_impl": len(cfgs) + conf,
        "exhaustive": True,
        "samples": [{"fragments": list(c[0]), "dir_last": c[1], "dir": c[2], "results": c[3], "ai": c[4], "output": c[5], "expected": sorted(ref_exit_status(c)[0])} for c in (cfgs[1], cfgs[len(cfgs) // 2], cfgs[-1])],
        "argument_vectors": len(cfgs),
        "fragment_alphabet": {k: v[0] for k, v in FRAGMENTS.items()},
        "max_fragments": 2 if tier == "quick" else 3,
        "runtime_dimensions": {"dir": DIRS, "results": RESULTS, "ai": AI, "output": OUTPUTS},
        "observed_exit_histogram": exits,
        "cli_runs": len(cli_cfgs),
        "cli_divergence": divergence,
        "rule": "state = (ordered fragment vector, run-time condition vector); one real run() each; expected status from ref_exit_status; "
        "every fragment and every run-time condition also through the console script",
    }
    assumptions = [
        "with several simultaneously applicable failure conditions any of their statuses is accepted (weakest reading)",
        "a regular file given as target directory is undocumented: 0 or 1 accepted",
        "read-only output locations are not enumerated (checks run as root, permission faults are invisible)",
        "malformed JSON result files are undocumented and not enumerated",
    ]
    return "model_checking", coverage, violations, assumptions


def replay(rp):
    c = rp["cfg"]
    cfg = (tuple(c[0]),) + tuple(c[1:])
    found, code = eval_cfg_cli(cfg)
    return (rp["sig"] not in {s for s, _ in found}), f"exit={code} expected={sorted(ref_exit_status(cfg)[0])}\n" + "\n".join(f"{s}: {d}" for s, d in found)
