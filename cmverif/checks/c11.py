"""C11 - results do not depend on scheduling, worker count, hash seed, enumeration order or sibling files.

(a) preemption-bounded exhaustive exploration of the thread interleavings of the per-file tasks (sched.py / c11a.py),
(b) worker bound: pool size requested from the executor and measured in-flight tasks for every (w, n),
(c) every order of the registry's entry-point set (the only hash-order-sensitive iteration that reaches results),
(d) every order of Path.rglob answers (manifest discovery, file enumeration),
(e) sibling independence: run(subset)|f == run({f})|f for all subsets of a small project.
"""
from __future__ import annotations

import itertools
import json

from .. import core, drive, progspace, seams
from ..core import Violation
from . import c11a

PROP = "C11"


# --------------------------------------------------------------------------- (b) worker bound

GEN = b"x = sum([i for i in range(3)])\n"


def worker_cfgs():
    return [(w, n) for w in (1, 2, 3, 4) for n in (1, 3, 6)]


def _sized_files(n, order):
    """n triggerable files of pairwise different sizes; `order` permutes which path gets which size (size ranking vs path order)."""
    out = {}
    for i in range(n):
        pad = "".join(f"pad_{i}_{k} = {k}\n" for k in range(3 * order[i]))
        out[f"m{i}.py"] = (pad + "x = sum([i for i in range(3)])\n" + ("" if i % 3 else "def broken(:\n" * 0)).encode()
    out["zz_bad.py"] = b"def broken(:\n    pass\n"
    return out


def outcome_cfgs(tier):
    """(n, size order): outcome (tree + whole report incl. list orders) must be the same for every worker count."""
    import itertools as it

    cfgs = [(3, p) for p in it.permutations(range(3))] + [(4, p) for p in it.permutations(range(4))]
    if tier == "thorough":
        cfgs += [(5, p) for p in it.permutations(range(5))]
    return cfgs


def outcome_eval(cfg):
    n, order = cfg
    files = _sized_files(n, order)
    outs = {}
    for w in range(1, n + 2):
        obs = drive.run_inproc(drive.Job(files=files, argv=["{dir}", "--codemod-include", "pixee:python/use-generator,pixee:python/use-set-literal", "--max-workers", str(w)]))
        if obs.error:
            raise core.HarnessError(obs.error)
        outs.setdefault(outcome_of(obs), []).append(w)
    return outs


def worker_eval(cfg):
    w, n = cfg
    files = {f"m{i}.py": GEN for i in range(n)}
    job = drive.Job(files=files, argv=["{dir}", "--codemod-include", "pixee:python/use-generator", "--max-workers", str(w)],
                    pre_hook="cmverif.seams:inflight_counter", pre_hook_arg=0.15)
    obs = drive.run_inproc(job)
    if obs.error:
        raise core.HarnessError(obs.error)
    st = obs.extra.get("inflight", {})
    out = []
    if obs.exit != 0:
        out.append((f"workers|exit", f"--max-workers {w} with {n} files: exit {obs.exit}"))
    if st.get("calls") != n:
        raise core.HarnessError(f"in-flight counter saw {st.get('calls')} tasks for {n} files")
    if st.get("max", 0) > w:
        out.append(("workers|in-flight-exceeds-max-workers", f"--max-workers {w} with {n} files: {st['max']} files were being processed at the same time"))
    return out, st.get("max", 0)


# --------------------------------------------------------------------------- (c) entry-point orders

YAML_SRC = b"import yaml\n\nconfig = yaml.load(open('c.yml'))\n"
URL_SRC = b"import requests\n\ndef fetch(url):\n    return requests.get(url)\n"


def _sarif(results):
    return json.dumps({"version": "2.1.0", "runs": [{"tool": {"driver": {"name": "Semgrep OSS", "rules": []}}, "results": results}]}).encode()


def _sarif_result(rule, path, line, sc, ec):
    return {"ruleId": rule, "message": {"text": "m"}, "locations": [{"physicalLocation": {"artifactLocation": {"uri": path}, "region": {"startLine": line, "endLine": line, "startColumn": sc, "endColumn": ec}}}]}


def hash_job(selection, perm):
    files = {"app.py": YAML_SRC, "net.py": URL_SRC}
    col = len("config = ") + 1
    sarif = _sarif([
        _sarif_result("python.lang.security.deserialization.avoid-pyyaml-load.avoid-pyyaml-load", "app.py", 3, col, col + len("yaml.load(open('c.yml'))")),
        _sarif_result("python.django.security.injection.ssrf.ssrf-injection-requests.ssrf-injection-requests", "net.py", 4, 12, 12 + len("requests.get(url)")),
    ])
    dd = json.dumps({"results": [{"id": 7, "title": "python.django.security.audit.avoid-insecure-deserialization.avoid-insecure-deserialization", "file_path": "app.py", "line": 3}]}).encode()
    sonar = json.dumps({"issues": [{"rule": "pythonsecurity:S5144", "status": "OPEN", "component": "proj:net.py", "key": "S1",
                                    "textRange": {"startLine": 4, "endLine": 4, "startOffset": 11, "endOffset": 11 + len("requests.get(url)")}}]}).encode()
    results = {"s.sarif": sarif, "dd.json": dd, "issues.json": sonar}
    tools = ["--sarif", "{res:s.sarif}", "--defectdojo-findings-json", "{res:dd.json}", "--sonar-issues-json", "{res:issues.json}"]
    if selection == "sast-default":
        argv = ["{dir}"] + tools
    elif selection == "wildcard-across-origins":
        argv = ["{dir}", "--codemod-include", "*:python/url-sandbox,*harden-pyyaml,*avoid-insecure-deserialization"] + tools
    elif selection == "exclude-some":
        argv = ["{dir}", "--codemod-exclude", "sonar:python/secure-*"] + tools
    elif selection == "find-and-fix-default":
        argv = ["{dir}"]
        results = {}
    else:
        raise ValueError(selection)
    return drive.Job(files=files, argv=argv, results=results, pre_hook="cmverif.seams:perm_entry_points" if perm is not None else None, pre_hook_arg=perm)


def outcome_of(obs):
    rep = obs.report or {}
    return core.sha12(json.dumps({"exit": obs.exit, "tree": {k: (v.hex() if isinstance(v, bytes) else v) for k, v in sorted(obs.final.items())},
                                  "results": rep.get("results")}, sort_keys=True))


def hash_eval(cfg):
    selection, perm = cfg
    obs = drive.run_inproc(hash_job(selection, perm))
    if obs.error:
        raise core.HarnessError(obs.error)
    seq = [r["codemod"] for r in (obs.report or {}).get("results", [])]
    changed = sorted((r["codemod"], cs["path"]) for r in (obs.report or {}).get("results", []) for cs in r["changeset"])
    return outcome_of(obs), obs.exit, seq[:12], changed


def hash_eval_cli(cfg):
    selection, seed = cfg
    obs = drive.run_cli(hash_job(selection, None), hashseed=str(seed))
    if obs.error:
        raise core.HarnessError(obs.error)
    return outcome_of(obs), obs.exit


# --------------------------------------------------------------------------- (d) enumeration order

PICKLE = b"import pickle\n\ndata = pickle.load(open('f', 'rb'))\n"


def rglob_project():
    return {
        "a.py": PICKLE, "pkg/b.py": PICKLE, "pkg/sub/c.py": PICKLE,
        "requirements.txt": b"requests\n", "pkg/requirements.txt": b"requests\n", "pkg/sub/requirements.txt": b"requests\n",
        "setup.cfg": b"[options]\ninstall_requires =\n    requests\n", "pkg/setup.cfg": b"[options]\ninstall_requires =\n    requests\n",
    }


def rglob_cfgs():
    cfgs = []
    for pattern, n in (("requirements.txt", 3), ("setup.cfg", 2), ("pyproject.toml", 0), ("setup.py", 0), ("*", 12)):
        for perm in seams.permutations_of(n):
            cfgs.append((pattern, list(perm)))
    return cfgs


def rglob_job(cfg, with_setup_cfg_only=False):
    pattern, perm = cfg
    files = rglob_project()
    if with_setup_cfg_only:
        files = {k: v for k, v in files.items() if not k.endswith("requirements.txt")}
    return drive.Job(files=files, argv=["{dir}", "--codemod-include", "pixee:python/harden-pickle-load"], pre_hook="cmverif.seams:perm_rglob", pre_hook_arg={"pattern": pattern, "perm": perm})


def rglob_eval(cfg):
    pattern, perm, variant = cfg
    obs = drive.run_inproc(rglob_job((pattern, perm), variant == "cfg-only"))
    if obs.error:
        raise core.HarnessError(obs.error)
    changed = sorted(k for k in obs.final if obs.final[k] != obs.before.get(k))
    return outcome_of(obs), obs.exit, changed, obs.extra.get("rglob_sizes", {})


# --------------------------------------------------------------------------- (e) sibling independence


def sibling_projects(tier):
    """codemod -> list of (relpath, bytes, doc) built from its canonical seeds."""
    by_cm = {}
    for s in progspace.load_seeds():
        if s.kind == "trigger" and s.batchable and s.compiles:
            by_cm.setdefault(s.codemod, []).append(s)
    out = {}
    k = 3 if tier == "quick" else 4
    for cm, seeds in sorted(by_cm.items()):
        if cm in ("pixee:python/order-imports",):
            continue  # reads the project layout by design (DESIGN.md Appendix D)
        seeds = (seeds * k)[:k]
        out[cm] = [(f"d{i}/mod{i}.py", s) for i, s in enumerate(seeds)]
    return out


def sibling_cfgs(tier):
    cfgs = []
    projs = sibling_projects(tier)
    k = 3 if tier == "quick" else 4
    full = tuple(range(k))
    for cm in projs:
        if tier == "quick":
            subsets = [full] + [(i,) for i in range(k)]
        else:
            subsets = [s for r in range(1, k + 1) for s in itertools.combinations(range(k), r)]
        cfgs.append((cm, tuple(subsets)))
    return cfgs


def sibling_eval(cfg):
    from .. import resultfiles

    cm, subsets = cfg
    tier = "quick" if max(map(len, subsets)) == 3 else "thorough"
    items = sibling_projects(tier)[cm]
    per_subset = {}
    for sub in subsets:
        files = {items[i][0]: items[i][1].input.encode() for i in sub}
        argv = ["{dir}", "--codemod-include", cm]
        results = {}
        tool = items[0][1].tool
        if tool:
            docs = [resultfiles.relocate(tool, items[i][1].results, items[i][0]) for i in sub]
            a, results = resultfiles.argv_and_files(tool, docs)
            argv += a
        obs = drive.run_inproc(drive.Job(files=files, argv=argv, results=results))
        if obs.error:
            raise core.HarnessError(obs.error)
        per_file = {}
        for i in sub:
            path = items[i][0]
            cs = [c for r in (obs.report or {}).get("results", []) for c in r["changeset"] if c["path"] == path]
            per_file[i] = (obs.exit, obs.final.get(path), json.dumps(cs, sort_keys=True))
        per_subset[sub] = per_file
    out = []
    changed = 0
    for sub, per_file in per_subset.items():
        for i, val in per_file.items():
            alone = per_subset.get((i,))
            if alone is None:
                continue
            if val[1] != items[i][1].input.encode():
                changed += 1
            if val != alone[i]:
                what = "exit" if val[0] != alone[i][0] else ("bytes" if val[1] != alone[i][1] else "changeset")
                out.append((f"sibling|{cm}|{what}", f"{items[i][0]} processed with siblings {[items[j][0] for j in sub if j != i]} differs ({what}) from processing it alone"))
    return out, len(per_subset), changed


# --------------------------------------------------------------------------- explore


# --------------------------------------------------------------------------- (i) aliases of one file under real hash seeds

def alias_cfgs(tier):
    return [(kind, hs) for kind in ("hardlink", "symlink") for hs in range(4 if tier == "quick" else 8)]


def alias_eval(cfg):
    kind, hs = cfg
    files = {"app/handlers.py": GEN + b"y = set([1])\n", "app/other.py": GEN, "legacy/handlers_v1.py": (kind, "app/handlers.py" if kind == "hardlink" else "../app/handlers.py"),
             "zz/handlers_copy.py": (kind, "app/handlers.py" if kind == "hardlink" else "../app/handlers.py")}
    obs = drive.run_cli(drive.Job(files=files, argv=["{dir}", "--codemod-include", "pixee:python/use-generator,pixee:python/use-set-literal"]), hashseed=str(hs))
    if obs.error:
        raise core.HarnessError(obs.error)
    return outcome_of(obs)


# --------------------------------------------------------------------------- (g) many siblings (project size)

CROWD_TARGETS = ["app.py", "vendor/app.py", "node_modules/pkg/app.py", "third_party/lib/app.py", "static/js/app.py", "ignored/app.py", ".cache/app.py"]
CROWD_SRC = b"import random\nvalue = sum([random.random() for _ in range(3)])\n"
CROWD_KINDS = {
    "detector-less": "pixee:python/use-generator",
    "semgrep-detected": "pixee:python/secure-random",
    "sonar": "sonar:python/secure-random",
}
CROWD_SIZES = [0, 30, 700]  # 700 siblings in 200-character directories: the file list no longer fits any small buffer (~150 KB)


def crowd_cfgs(tier):
    return [(k, n) for k in CROWD_KINDS for n in (CROWD_SIZES if tier == "thorough" or k != "detector-less" else CROWD_SIZES[:2])]


def crowd_eval(cfg):
    kind, n = cfg
    files = {t: CROWD_SRC for t in CROWD_TARGETS}
    files[".gitignore"] = b"ignored/\n"
    for i in range(n):
        files[f"{'d%04d_' % i}{'x' * 194}/m{i}.py"] = b"VALUE = 1\n"
    argv = ["{dir}", "--codemod-include", CROWD_KINDS[kind]]
    results = {}
    if kind == "sonar":
        col = len("value = sum([")
        hs = [{"ruleKey": "python:S2245", "status": "TO_REVIEW", "component": f"proj:{t}", "key": f"K{i}",
               "textRange": {"startLine": 2, "endLine": 2, "startOffset": col, "endOffset": col + len("random.random()")}} for i, t in enumerate(CROWD_TARGETS)]
        argv += ["--sonar-hotspots-json", "{res:h.json}"]
        results["h.json"] = json.dumps({"hotspots": hs}).encode()
    obs = drive.run_inproc(drive.Job(files=files, argv=argv, results=results, keep_before=False))
    if obs.error:
        raise core.HarnessError(obs.error)
    out = {}
    for t in CROWD_TARGETS:
        cs = [c for r in (obs.report or {}).get("results", []) for c in r["changeset"] if c["path"] == t]
        out[t] = core.sha12(json.dumps([obs.exit if isinstance(obs.exit, int) else "exception", (obs.final.get(t) or b"").hex(), cs], sort_keys=True))
    return out, sum(1 for t in CROWD_TARGETS if obs.final.get(t) != CROWD_SRC)


# --------------------------------------------------------------------------- (f) real hash seeds over the seed corpus

_CORPUS_JOBS = None


def corpus_jobs():
    """Every trigger seed of every codemod in canonical form, batched per codemod (singleton projects for the codemods that
    read siblings): the per-file outcome must be the same under every PYTHONHASHSEED of the tier."""
    global _CORPUS_JOBS
    if _CORPUS_JOBS is None:
        from .. import batch, progspace

        progspace.register_structural()
        seeds = [s for s in progspace.load_seeds() if s.kind == "trigger"]
        _CORPUS_JOBS = batch.make_jobs(progspace.programs_for(seeds, 0), chunk=60, runs=1)
    return _CORPUS_JOBS


def corpus_hash_eval(cfg):
    from .. import batch

    idx, hs = cfg
    spec = corpus_jobs()[idx]
    obs = drive.run_cli(batch.job_to_drive(spec), hashseed=str(hs))
    if obs.error:
        raise core.HarnessError(obs.error)
    out = {}
    for r in batch._records(spec, obs):
        out[r.pid] = core.sha12(json.dumps([obs.exits[0], (r.after[0] or b"").hex(), r.cs[0], r.failed[0], r.unfixed[0]], sort_keys=True, default=str))
    return out


def corpus_hash_alone(pid, seeds):
    from .. import batch

    spec = next(j for j in corpus_jobs() if any(i[0] == pid for i in j["items"]))
    i = next(k for k, it in enumerate(spec["items"]) if it[0] == pid)
    one = dict(spec, items=[spec["items"][i]], docs=[spec["docs"][i]] if spec["docs"] else None)
    outs = {}
    for hs in seeds:
        obs = drive.run_cli(batch.job_to_drive(one), hashseed=str(hs))
        if obs.error:
            raise core.HarnessError(obs.error)
        r = batch._records(one, obs)[0]
        outs.setdefault(core.sha12(json.dumps([obs.exits[0], (r.after[0] or b"").hex(), r.cs[0], r.failed[0], r.unfixed[0]], sort_keys=True, default=str)), []).append(hs)
    return outs


def explore(tier, seed):
    violations = []
    cands = {}

    # (a) schedules
    if tier == "quick":
        plans = [("semgrep-detected", "line", 1), ("import-scheduling", "line", 1), ("detector-less", "coarse", 1), ("sonar", "line", 1),
                 ("regex-plugin", "line", 1), ("xml-plugin", "line", 1), ("defectdojo-pages", "line", 1)]
    else:
        # sizes measured on this box (executions): line<=1 ~1.5-4.3k per driver, coarse<=2 ~5-6k per 3-task driver
        plans = [("semgrep-detected", "line", 1), ("import-scheduling", "line", 1), ("detector-less", "coarse", 1), ("sonar", "line", 1),
                 ("semgrep-detected", "coarse", 2), ("import-scheduling", "coarse", 2), ("sonar", "coarse", 2), ("detector-less", "coarse", 2),
                 ("four-tasks", "coarse", 1), ("regex-plugin", "line", 1), ("xml-plugin", "line", 1), ("regex-plugin", "coarse", 2), ("xml-plugin", "coarse", 2), ("defectdojo-pages", "line", 1)]
    sched_cov = []
    total_exec = 0
    for driver, gran, bound in plans:
        r = c11a.explore_cached(driver, gran, bound)
        total_exec += r["executions"]
        sched_cov.append({"driver": driver, "granularity": gran, "preemption_bound": bound, "executions": r["executions"], "distinct_outcomes": len(r["outcomes"]),
                          "scheduling_points_per_execution": r["points_max"], "max_tasks_in_flight": r["in_flight_max"], "pool_size_requested": r["requested_workers"],
                          "tasks": r["root"]["tasks"], "seams": r["root"]["seams"]})
        if len(r["outcomes"]) != 1:
            alt = [ch for h, ch in r["outcomes"].items() if h != r["root"]["hash"]][0]
            cands[f"schedule|{driver}|{gran}|outcome-depends-on-interleaving"] = (
                {"kind": "schedule", "driver": driver, "gran": gran, "choices": alt, "reference": r["root"]["hash"]},
                f"{len(r['outcomes'])} distinct outcomes over {r['executions']} schedules with <= {bound} preemptions; e.g. schedule {alt[:30]}...",
            )
        n_tasks = r["root"]["tasks"]
        if r["requested_workers"] != [str(n_tasks)]:
            cands[f"schedule|{driver}|pool-size-not-max-workers"] = (
                {"kind": "schedule-pool", "driver": driver, "gran": gran},
                f"max_workers={n_tasks} but the executor was created with max_workers={r['requested_workers']}",
            )
    # (b) worker bound, free running
    wcfgs = worker_cfgs()
    wres = drive.pmap("cmverif.checks.c11:worker_eval", wcfgs)
    for cfg, (found, mx) in zip(wcfgs, wres):
        for sig, detail in found:
            cands.setdefault(sig, ({"kind": "workers", "cfg": list(cfg), "sig": sig}, detail))
    ocfgs = outcome_cfgs(tier)
    ores = drive.pmap("cmverif.checks.c11:outcome_eval", ocfgs)
    for cfg, outs in zip(ocfgs, ores):
        if len(outs) != 1:
            cands.setdefault("workers|outcome-depends-on-max-workers", ({"kind": "workers-outcome", "n": cfg[0], "order": list(cfg[1])},
                             f"{cfg[0]} files whose sizes rank {list(cfg[1])} in path order: worker counts grouped by outcome {sorted(outs.values())}"))
    # (c) entry-point orders
    selections = ["sast-default", "wildcard-across-origins", "exclude-some"] + (["find-and-fix-default"] if tier == "thorough" else [])
    perms = list(itertools.permutations(range(4)))
    hcfgs = [(s, p) for s in selections for p in perms]
    hres = drive.pmap("cmverif.checks.c11:hash_eval", drive.seed_rotate(hcfgs, seed))
    by_sel = {}
    for (s, p), (h, ex, seq, changed) in zip(drive.seed_rotate(hcfgs, seed), hres):
        by_sel.setdefault(s, {}).setdefault(h, (p, seq, changed))
    hash_cov = {}
    for s, outs in by_sel.items():
        hash_cov[s] = {"permutations": len(perms), "distinct_outcomes": len(outs)}
        if len(outs) != 1:
            (p1, seq1, ch1), (p2, seq2, ch2) = list(outs.values())[:2]
            cands[f"hashseed|{s}|outcome-depends-on-entry-point-order"] = (
                {"kind": "hashseed", "selection": s, "perms": [list(p1), list(p2)]},
                f"entry-point orders {p1} and {p2} give different outcomes: executed {seq1[:6]} changed {ch1} vs executed {seq2[:6]} changed {ch2}",
            )
    cli_cfgs = [(s, hs) for s in selections[:2] for hs in range(4)]
    cres = drive.pmap("cmverif.checks.c11:hash_eval_cli", cli_cfgs)
    real_seed_outcomes = {}
    for (s, hs), (h, ex) in zip(cli_cfgs, cres):
        real_seed_outcomes.setdefault(s, set()).add(h)
        if h not in by_sel[s]:
            raise core.HarnessError(f"real PYTHONHASHSEED={hs} run of {s} produced an outcome that no enumerated entry-point order produces")
    for s, outs in real_seed_outcomes.items():
        if len(outs) != 1:
            cands.setdefault(f"hashseed|{s}|outcome-depends-on-entry-point-order", ({"kind": "hashseed-cli", "selection": s}, f"real runs with PYTHONHASHSEED 0..3 give {len(outs)} different outcomes"))
    # (d) rglob orders
    rcfgs = [(p, perm, v) for (p, perm) in rglob_cfgs() for v in ("all", "cfg-only")]
    rres = drive.pmap("cmverif.checks.c11:rglob_eval", rcfgs)
    by_variant = {}
    for (p, perm, v), (h, ex, changed, sizes) in zip(rcfgs, rres):
        by_variant.setdefault(v, {}).setdefault(h, (p, perm, changed))
    rglob_cov = {}
    for v, outs in by_variant.items():
        rglob_cov[v] = {"orders": sum(1 for c in rcfgs if c[2] == v), "distinct_outcomes": len(outs)}
        if len(outs) != 1:
            (p1, perm1, ch1), (p2, perm2, ch2) = list(outs.values())[:2]
            cands[f"rglob|{v}|outcome-depends-on-enumeration-order"] = (
                {"kind": "rglob", "variant": v, "cfgs": [[p1, perm1], [p2, perm2]]},
                f"rglob('{p1}') order {perm1} changes {ch1} but rglob('{p2}') order {perm2} changes {ch2}",
            )
    # (e) sibling independence
    scfgs = drive.seed_rotate(sibling_cfgs(tier), seed)
    sres = drive.pmap("cmverif.checks.c11:sibling_eval", scfgs)
    sib_runs = sib_changed = 0
    for cfg, (found, nruns, changed) in zip(scfgs, sres):
        sib_runs += nruns
        sib_changed += changed
        for sig, detail in found:
            cands.setdefault(sig, ({"kind": "sibling", "codemod": cfg[0], "subsets": [list(s) for s in cfg[1]], "sig": sig}, detail))

    # (f) real hash seeds over the seed corpus
    hash_seeds = list(range(4 if tier == "quick" else 8))
    jobs = corpus_jobs()
    fcfgs = [(i, hs) for i in range(len(jobs)) for hs in hash_seeds]
    fres = drive.pmap("cmverif.checks.c11:corpus_hash_eval", fcfgs)
    per_pid = {}
    for (i, hs), outs in zip(fcfgs, fres):
        for pid, h in outs.items():
            per_pid.setdefault(pid, {}).setdefault(h, []).append(hs)
    corpus_programs = len(per_pid)
    for pid, outs in sorted(per_pid.items()):
        if len(outs) != 1:
            spec = next(j for j in jobs if any(it[0] == pid for it in j["items"]))
            cands[f"hashseed-corpus|{spec['codemod']}|{pid}|outcome-depends-on-hash-seed"] = (
                {"kind": "hashseed-corpus", "pid": pid, "seeds": hash_seeds},
                f"{pid}: {len(outs)} different outcomes (files / changesets) over PYTHONHASHSEED {hash_seeds}: seeds grouped {sorted(outs.values())}",
            )

    # (h) per-codemod races: the codemods whose transformers keep state of their own (thorough: every find-and-fix codemod),
    # two / three files in flight, a scheduling point at every function entry of the transformer's modules, <= 1 preemption
    hcms = c11a.stateful_codemods()
    hjobs = [(cm, 1) for cm in hcms]
    if tier == "thorough":
        drive.init_inproc()
        from codemodder import registry as _reg

        every = [c.id for c in _reg.load_registered_codemods().codemods if c.id.startswith("pixee:") and c11a.codemod_spec(c.id) is not None]
        hjobs = [(cm, 2) for cm in hcms] + [(cm, 1) for cm in every if cm not in hcms]
    hres = drive.pmap("cmverif.checks.c11a:codemod_race_job", hjobs)
    race_cov = {"codemods": len(hjobs), "executions": sum(r[1] for r in hres), "stateful_codemods": hcms}
    for (cm, ns), (_, n, nout, alt, pts) in zip(hjobs, hres):
        if nout > 1:
            cands[f"race|{cm}|outcome-depends-on-interleaving"] = ({"kind": "codemod-race", "codemod": cm, "n_seeds": ns, "choices": alt},
                                                                  f"{nout} distinct outcomes over {n} schedules (<= 1 preemption, {pts} points) of {cm} on {ns} of its seeds and a file of generic constructs")
    # (i) several names of one file (hard links, symlinks): same outcome under every hash seed
    acfgs = alias_cfgs(tier)
    ares = drive.pmap("cmverif.checks.c11:alias_eval", acfgs)
    by_kind = {}
    for (kind, hs), h in zip(acfgs, ares):
        by_kind.setdefault(kind, {}).setdefault(h, []).append(hs)
    for kind, outs in by_kind.items():
        if len(outs) != 1:
            cands.setdefault(f"hashseed|{kind}-aliases|outcome-depends-on-hash-seed", ({"kind": "aliases", "alias": kind, "seeds": sorted(hs for v in outs.values() for hs in v)},
                             f"a project in which one file has three names ({kind}s): hash seeds grouped by outcome {sorted(outs.values())}"))
    # (g) many siblings
    gcfgs = crowd_cfgs(tier)
    gres = drive.pmap("cmverif.checks.c11:crowd_eval", gcfgs)
    crowd_cov = {}
    ref = {k: o for (k, n), (o, ch) in zip(gcfgs, gres) if n == 0}
    for (k, n), (o, ch) in zip(gcfgs, gres):
        crowd_cov.setdefault(k, {})[str(n)] = {"target_files_changed": ch}
        bad = sorted(t for t in CROWD_TARGETS if o[t] != ref[k][t])
        if bad:
            cands.setdefault(f"crowd|{k}|outcome-depends-on-number-of-siblings", ({"kind": "crowd", "pipeline": k, "n": n}, f"with {n} unrelated sibling files the outcome for {bad} differs from the outcome without them"))

    known_open = {k["signature"] for k in core.load_known() if k["property"] == PROP and k["status"] == "open"}
    new = [(s, c) for s, c in sorted(cands.items()) if s not in known_open]
    repro = drive.confirm_replays("cmverif.checks.c11", [dict(c[0], sig=s) for s, c in new])
    divergence = []
    for (sig, (rp, detail)), ok in zip(new, repro):
        if ok:
            violations.append(Violation(PROP, sig, detail[:600], dict(rp, sig=sig), 1))
        else:
            divergence.append(sig)
    for sig, (rp, detail) in sorted(cands.items()):
        if sig in known_open:
            violations.append(Violation(PROP, sig, detail[:600], dict(rp, sig=sig), 1))
    n_trans = total_exec + len(wcfgs) + len(hcfgs) + len(cli_cfgs) + len(rcfgs) + sib_runs + len(fcfgs) + len(gcfgs) + race_cov["executions"]
    coverage = {
        "states": total_exec + len(hcfgs) + len(rcfgs) + len(wcfgs),
        "transitions": n_trans,
        "traces_validated_against_impl": n_trans,
        "exhaustive": True,
        "samples": [sched_cov[0], {"entry_point_order": list(perms[5]), "selection": selections[0]}, {"rglob": rcfgs[3][:2]}],
        "schedules": sched_cov,
        "schedule_executions": total_exec,
        "worker_bound": {"pairs (w, n)": wcfgs, "max_in_flight_observed": [r[1] for r in wres]},
        "worker_count_outcomes": {"projects": len(ocfgs), "rule": "n files of pairwise different sizes, every assignment of sizes to paths, plus an unparseable file, two codemods; the tree and the whole report (list orders included) are the same for every --max-workers from 1 to n+1"},
        "entry_point_orders": hash_cov,
        "real_hash_seed_runs": len(cli_cfgs),
        "hash_seeds_over_corpus": {"PYTHONHASHSEED": hash_seeds, "programs": corpus_programs, "project_runs": len(fcfgs), "rule": "every canonical trigger seed of every codemod, one real console-script run per (project, hash seed); per-file outcome (bytes, changesets, failed, unfixed) must be the same for every seed"},
        "rglob_orders": rglob_cov,
        "sibling_independence": {"codemods": len(scfgs), "runs": sib_runs, "file_outcomes_changed_by_codemod": sib_changed, "subsets": "full set + singletons of 3 files" if tier == "quick" else "all non-empty subsets of 4 files"},
        "per_codemod_races": race_cov,
        "file_aliases_under_hash_seeds": {k: {"seeds": sum(len(v) for v in o.values()), "distinct_outcomes": len(o)} for k, o in by_kind.items()},
        "many_siblings": {"targets": CROWD_TARGETS, "sibling_counts": CROWD_SIZES, "per_pipeline": crowd_cov, "rule": "the outcome (bytes, changesets) of every target file is the same with 0, 30 and 700 unrelated files in 200-character directories"},
        "replay_divergence": divergence,
        "rule": "schedule exploration: stateless DFS, executions run to completion, every schedule with <= b preemptions; one outcome (tree + results) required. Other dimensions: every order of the seam's answer; one outcome required.",
    }
    assumptions = [
        "the scheduler serialises the per-file tasks (one runs at a time); races inside C extensions (libcst's native parser) are out of scope",
        "line granularity = every line of codemodder's own framework modules that touch per-run objects (listed in c11a.LINE_MODULES); transformer internals are scheduled at function granularity",
        "rglob answers with more than 4 entries are permuted by all rotations and the reversal, not all permutations (reported in coverage)",
        "codemods that read sibling files by design (order-imports; manifests for dependency-adding codemods) are excluded from sibling independence",
    ]
    return "model_checking", coverage, violations, assumptions


def replay(rp):
    drive.init_inproc()
    k = rp["kind"]
    if k == "schedule":
        s1, h1, d1 = c11a.run_once(rp["driver"], rp["choices"], rp["gran"])
        s2, h2, _ = c11a.run_once(rp["driver"], rp["choices"], rp["gran"])
        if s1.choices != s2.choices or h1 != h2:
            raise core.HarnessError("schedule replay diverged")
        _, h0, d0 = c11a.run_once(rp["driver"], [], rp["gran"])
        return (h1 == h0), f"schedule {rp['choices'][:40]} -> outcome {h1}; default schedule -> {h0}"
    if k == "schedule-pool":
        s, _, _ = c11a.run_once(rp["driver"], [], rp["gran"])
        return (str(getattr(s, "requested_workers", None)) == str(len(s.tasks))), f"executor max_workers={getattr(s, 'requested_workers', None)} tasks={len(s.tasks)}"
    if k == "workers-outcome":
        outs = outcome_eval((rp["n"], tuple(rp["order"])))
        return (len(outs) == 1), f"worker counts grouped by outcome: {sorted(outs.values())}"
    if k == "workers":
        found, mx = worker_eval(tuple(rp["cfg"]))
        return (rp["sig"] not in {s for s, _ in found}), f"max in flight {mx} with --max-workers {rp['cfg'][0]}"
    if k == "hashseed":
        a = hash_eval((rp["selection"], tuple(rp["perms"][0])))
        b = hash_eval((rp["selection"], tuple(rp["perms"][1])))
        return (a[0] == b[0]), f"{rp['perms'][0]}: {a[2]} {a[3]}\n{rp['perms'][1]}: {b[2]} {b[3]}"
    if k == "hashseed-cli":
        outs = {hash_eval_cli((rp["selection"], hs))[0] for hs in range(4)}
        return (len(outs) == 1), f"{len(outs)} distinct outcomes over PYTHONHASHSEED 0..3"
    if k == "aliases":
        outs = {}
        for hs in rp["seeds"]:
            outs.setdefault(alias_eval((rp["alias"], hs)), []).append(hs)
        return (len(outs) == 1), f"hash seeds grouped by outcome: {sorted(outs.values())}"
    if k == "codemod-race":
        drv = f"codemod:{rp['n_seeds']}:{rp['codemod']}"
        _, h1, _ = c11a.run_once(drv, rp["choices"], "calls")
        _, h2, _ = c11a.run_once(drv, rp["choices"], "calls")
        _, h0, _ = c11a.run_once(drv, [], "calls")
        if h1 != h2:
            raise core.HarnessError("schedule replay diverged")
        return (h1 == h0), f"schedule {rp['choices'][:40]} -> outcome {h1}; default schedule -> {h0}"
    if k == "crowd":
        a, _ = crowd_eval((rp["pipeline"], 0))
        b, _ = crowd_eval((rp["pipeline"], rp["n"]))
        bad = sorted(t for t in CROWD_TARGETS if a[t] != b[t])
        return (not bad), f"targets whose outcome depends on the {rp['n']} siblings: {bad}"
    if k == "hashseed-corpus":
        outs = corpus_hash_alone(rp["pid"], rp["seeds"])
        return (len(outs) == 1), f"{rp['pid']} alone: {len(outs)} distinct outcomes over PYTHONHASHSEED {rp['seeds']}: {sorted(outs.values())}"
    if k == "rglob":
        a = rglob_eval((rp["cfgs"][0][0], rp["cfgs"][0][1], rp["variant"]))
        b = rglob_eval((rp["cfgs"][1][0], rp["cfgs"][1][1], rp["variant"]))
        return (a[0] == b[0]), f"{rp['cfgs'][0]}: changed {a[2]}\n{rp['cfgs'][1]}: changed {b[2]}"
    if k == "sibling":
        found, _, _ = sibling_eval((rp["codemod"], tuple(tuple(s) for s in rp["subsets"])))
        return (rp["sig"] not in {s for s, _ in found}), "\n".join(d for _, d in found) or "file outcome independent of siblings"
    raise ValueError(k)
