"""C07 - re-running a codemod on its own output changes nothing (fixed point).

History BFS of depth 2 over the program space: s1 = K(P), s2 = K(s1) with identical options and result files;
s2 must equal s1 bytewise and the second report must carry no changeset for the file.
"""
from __future__ import annotations

from .. import progcheck

PROP = "C07"


def monitor(p, r):
    if len(r.after) < 2 or r.after[0] is None:
        return
    if r.after[1] != r.after[0]:
        yield ("rerun-changes-file", "second run with the same codemod, options and result file modified the file again")
    elif r.cs[1]:
        yield ("rerun-reports-change", f"second run left the file alone but reported {len(r.cs[1])} changeset(s)")


def explore(tier, seed):
    coverage, violations = progcheck.run_monitor(PROP, tier, seed, monitor, describe="Oracle: K(K(P)) == K(P) bytewise and the second report has no changeset.")
    coverage["histories"] = "every program: P -K-> s1 -K-> s2 (depth 2); fixed points are shared states"
    assumptions = [
        "SAST codemods are re-run with the unchanged result file, as the property states",
        "batched execution is sound by sibling independence (C11e); every new candidate is re-executed alone through the CLI twice",
    ]
    return "model_checking", coverage, violations, assumptions


def replay(rp):
    return progcheck.replay_program(rp, monitor)
