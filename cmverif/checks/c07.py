"""C07 - re-running a codemod on its own output changes nothing (fixed point).

History BFS of depth 2 over the program space: s1 = K(P), s2 = K(s1) with identical options and result files;
s2 must equal s1 bytewise and the second report must carry no changeset for the file.
"""
from __future__ import annotations

from .. import core, drive, progcheck, seqspace
from ..core import Violation

PROP = "C07"


def monitor(p, r):
    if len(r.after) < 2 or r.after[0] is None:
        return
    if r.after[1] != r.after[0]:
        yield ("rerun-changes-file", "second run with the same codemod, options and result file modified the file again")
    elif r.cs[1]:
        yield ("rerun-reports-change", f"second run left the file alone but reported {len(r.cs[1])} changeset(s)")


def judge_project(r):
    """Fixed point at project level: source files, the setup.py that is manifest and source at once, and the other manifests."""
    k, (r1, r2) = r["codemod"], r["runs"]
    out = []
    if r1["exit"] != 0 or r2["exit"] != 0:
        return [(f"project|{k}|exit", f"exit statuses {r1['exit']}, {r2['exit']}")]
    diff = sorted(f for f in set(r1["tree"]) | set(r2["tree"]) if r1["tree"].get(f) != r2["tree"].get(f))
    if diff:
        out.append((f"project|{k}|rerun-changes-file:{diff[0]}", f"second run of {k} with the same options modified {diff} again"))
    cs = [c["path"] for res in (r2["results"] or []) for c in res.get("changeset", [])]
    if cs and not diff:
        out.append((f"project|{k}|rerun-reports-change:{cs[0]}", f"second run of {k} left the project alone but reported changesets for {cs}"))
    return out


def explore_projects(tier, seed):
    cms = drive.seed_rotate(seqspace.codemods(tier), seed)
    res = drive.pmap("cmverif.seqspace:rerun_job", cms)
    cands, changed = {}, 0
    for r in res:
        changed += any(r["runs"][0]["tree"].get(f) != d for f, d in r["files"].items())
        for sig, detail in judge_project(r):
            cands.setdefault(sig, (r["codemod"], detail))
    # the same invocation of SEVERAL codemods again on its own output (ordered triples shared with C09)
    triples, _, _ = seqspace.explore_triples(tier, seed)
    tcands = {}
    for ks, rec in sorted(triples.items()):
        for sig, detail in judge_project({"codemod": ">".join(ks), "runs": [rec["batch"], rec["batch_rerun"]]}):
            tcands.setdefault(sig, (ks, detail))
    known_open = {k["signature"] for k in core.load_known() if k["property"] == PROP and k["status"] == "open"}
    violations = []
    for sig, (k, detail) in sorted(cands.items()):
        if sig not in known_open:
            again = [{s for s, _ in judge_project(seqspace.rerun_job_cli(k))} for _ in range(2)]
            if not all(sig in a for a in again):
                continue
        violations.append(Violation(PROP, sig, detail[:600], {"project": True, "codemod": k, "sig": sig}, 1))
    for sig, (ks, detail) in sorted(tcands.items()):
        if sig not in known_open:
            again = []
            for _ in range(2):
                rec = seqspace.seq_job_cli(ks)
                again.append({s for s, _ in judge_project({"codemod": ">".join(ks), "runs": [rec["batch"], rec["batch_rerun"]]})})
            if not all(sig in a for a in again):
                continue
        violations.append(Violation(PROP, sig, detail[:600], {"project": True, "seq": list(ks), "sig": sig}, 3))
    return {"codemods": len(cms), "runs": 2 * len(cms) + len(triples), "projects_changed_by_first_run": changed, "multi_codemod_invocations_rerun": len(triples)}, violations


def explore(tier, seed):
    coverage, violations = progcheck.run_monitor(PROP, tier, seed, monitor, describe="Oracle: K(K(P)) == K(P) bytewise and the second report has no changeset.")
    coverage["histories"] = "every program: P -K-> s1 -K-> s2 (depth 2); fixed points are shared states"
    pcov, pviol = explore_projects(tier, seed)
    coverage["project_histories"] = dict(pcov, rule="collision project (sources, a setup.py that is manifest and source, requirements.txt, setup.cfg, an unparseable file) -K-> s1 -K-> s2 for every interacting codemod; s2 == s1 and no changeset in the second report")
    for key in ("states", "transitions", "traces_validated_against_impl"):
        if isinstance(coverage.get(key), int):
            coverage[key] += pcov["runs"]
    violations = list(violations) + pviol
    assumptions = [
        "SAST codemods are re-run with the unchanged result file, as the property states",
        "batched execution is sound by sibling independence (C11e); every new candidate is re-executed alone through the CLI twice",
    ]
    return "model_checking", coverage, violations, assumptions


def replay(rp):
    if rp.get("project") and rp.get("seq"):
        rec = seqspace.seq_job_cli(tuple(rp["seq"]))
        found = judge_project({"codemod": ">".join(rp["seq"]), "runs": [rec["batch"], rec["batch_rerun"]]})
        return (rp["sig"] not in {s for s, _ in found}), "\n".join(f"{s}: {d}" for s, d in found) or "second run changes nothing"
    if rp.get("project"):
        found = judge_project(seqspace.rerun_job_cli(rp["codemod"]))
        return (rp["sig"] not in {s for s, _ in found}), "\n".join(f"{s}: {d}" for s, d in found) or "second run changes nothing"
    return progcheck.replay_program(rp, monitor)
