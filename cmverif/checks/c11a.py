"""C11(a): thread-schedule exploration drivers (run inside worker processes)."""
from __future__ import annotations

import hashlib
import json
import shutil
from pathlib import Path

from .. import core, drive, sched

PICKLE = b"import pickle\n\ndata = pickle.load(open('f', 'rb'))\n"
BAD = b"def broken(:\n    pass\n"
VERIFY = b"import requests\n\nrequests.get('https://u', verify=False)\n"
VERIFY2 = b"import requests\n\nrequests.get('https://a', verify=False)\nrequests.post('https://b', verify=False)\n"
RANDOM = b"import random\n\nvalue = random.random()\n"
# same kind of node at the same position as VERIFY's call, but NOT reported (verify=check), next to a reported one
MIXED = b"import requests\n\nrequests.get('https://u', verify=check)\nrequests.post('https://b', verify=False)\n"


def _sonar(files):
    hs = [{"ruleKey": "python:S2245", "status": "TO_REVIEW", "component": f"proj:{f}", "key": f"K{i}",
           "textRange": {"startLine": 3, "endLine": 3, "startOffset": 8, "endOffset": 23}} for i, f in enumerate(files)]
    return json.dumps({"hotspots": hs}).encode()


DRIVERS = {
    # same codemod, same dependency added by every file, identical contents and names in different directories,
    # one file that fails to parse, one manifest
    "detector-less": {
        "codemod": "pixee:python/harden-pickle-load",
        "files": {"a/mod.py": PICKLE, "b/mod.py": PICKLE, "c/bad.py": BAD, "requirements.txt": b"requests\n"},
    },
    "semgrep-detected": {
        "codemod": "pixee:python/requests-verify",
        "files": {"a/mod.py": VERIFY, "b/mod.py": MIXED, "c/two.py": VERIFY2},
    },
    "sonar": {
        "codemod": "sonar:python/secure-random",
        "files": {"a/mod.py": RANDOM, "b/mod.py": RANDOM, "c/bad.py": BAD + RANDOM},
        "sonar": ["a/mod.py", "b/mod.py", "c/bad.py"],
    },
    # a codemod that schedules imports (AddImportsVisitor / RemoveImportsVisitor state), next to a file that passes through
    # the pipeline without changes and one that fails to parse; no manifest (keeps executions cheap)
    "import-scheduling": {
        "codemod": "pixee:python/harden-pickle-load",
        "files": {"a/mod.py": PICKLE, "b/plain.py": b"import os\n\nprint(os.getcwd())\n", "c/bad.py": BAD},
    },
    # plugin-style SAST codemods on the regex and XML pipelines: every line / element matches, the findings differ per file
    "regex-plugin": {
        "plugin": "regex",
        "files": {f"t/page_{i}.html": "".join(f'<a href="http://e.org/{i}/{n}">x</a>\n' for n in range(1, 5)).encode() for i in range(3)},
        "findings": {"t/page_0.html": [1], "t/page_1.html": [3], "t/page_2.html": [2, 4]},
    },
    "xml-plugin": {
        "plugin": "xml",
        "files": {f"c/web_{i}.xml": ("<cfg>\n" + "".join(f'<item a="1" n="{i}{n}"/>\n' for n in range(1, 4)) + "</cfg>\n").encode() for i in range(3)},
        "findings": {"c/web_0.xml": [2], "c/web_1.xml": [3], "c/web_2.xml": [2, 4]},
    },
    # two DefectDojo result files (pages of one export), each naming another file: loaders that work on several files at once
    # meet in the accumulated result set
    "defectdojo-pages": {
        "codemod": "defectdojo:python/avoid-insecure-deserialization",
        "files": {f"svc/m{i}.py": b"import yaml\n\ndata = yaml.load(open('c.yml'))\n" for i in range(2)},
        "defectdojo": [[f"svc/m{i}.py"] for i in range(2)],
    },
    "four-tasks": {
        "codemod": "pixee:python/harden-pickle-load",
        "files": {"a/mod.py": PICKLE, "b/mod.py": PICKLE, "c/bad.py": BAD, "d/mod.py": PICKLE, "requirements.txt": b"requests\n"},
    },
}

LINE_MODULES = (
    "codemodder.codemods.base_codemod",
    "codemodder.codemods.libcst_transformer",
    "codemodder.file_context",
    "codemodder.context",
    "codemodder.diff",
    "codemodder.result",
    "codemodder.codemods.base_visitor",
    "codemodder.codemods.base_transformer",
    "codemodder.dependency",
    "codemodder.utils.timer",
    "codemodder.codemods.regex_transformer",
    "codemodder.codemods.xml_transformer",
)
_LINES = {"n": 0}


def _line_cb(filename, line):
    s = _CUR[0]
    if s is not None and s.trace_lines:
        s.point(("line", filename.rsplit("/", 1)[-1], line))


def _call_cb(filename, name):
    s = _CUR[0]
    if s is not None and getattr(s, "trace_calls", None) and filename in s.trace_calls:
        s.point(("call", filename.rsplit("/", 1)[-1], name))


# ---- one driver per codemod: two of its own trigger seeds + a file of generic constructs, scheduling points at every function
# entry of the module(s) that define the codemod's transformer classes (visitor-callback granularity)
FODDER = b"""import os


def generic(a, b=None):
    if a:
        b = [a]
    for x in b or []:
        with open(os.devnull) as fh:
            fh.read()
    try:
        return a + 1
    except TypeError:
        raise
"""
_CALL_MODULES = {}


def codemod_spec(cm, n_seeds=1):
    """n_seeds of the codemod's own (shortest) trigger seeds + the file of generic constructs."""
    from .. import progspace

    seeds = sorted((sd for sd in progspace.load_seeds() if sd.codemod == cm and sd.kind == "trigger" and sd.batchable and sd.compiles and not sd.tool), key=lambda sd: len(sd.input))[:n_seeds]
    if not seeds:
        return None
    files = {"c/plain.py": FODDER}
    for i, sd in enumerate(seeds):
        files[f"{'ab'[i]}/seed{i}.py"] = sd.input.encode()
    return {"codemod": cm, "files": files}


def stateful_codemods():
    """Find-and-fix codemods whose transformer classes keep state of their own (an __init__, or containers on the class):
    the ones for which two files in flight at once can meet in something else than the objects the framework hands them."""
    drive.init_inproc()
    from codemodder import registry

    out = []
    for c in registry.load_registered_codemods().codemods:
        if not c.id.startswith("pixee:") or codemod_spec(c.id) is None:
            continue
        for cls in getattr(getattr(c, "transformer", None), "transformers", []) or []:
            for k in cls.__mro__:
                if not k.__module__.startswith(("core_codemods", "codemodder.codemods.transformations", "codemodder.codemods.imported_call", "codemodder.utils.clean")):
                    continue
                own = "__init__" in k.__dict__ or any(isinstance(v, (list, dict, set)) and not n.startswith("__") and not n.isupper() for n, v in k.__dict__.items())
                if own and c.id not in out:
                    out.append(c.id)
    return out


def _transformer_modules(codemod):
    import importlib

    mods = set()
    tr = getattr(codemod, "transformer", None)
    for cls in getattr(tr, "transformers", []) or []:
        for k in cls.__mro__:
            if k.__module__.startswith("core_codemods") or k.__module__ in ("codemodder.codemods.transformations.clean_imports", "codemodder.codemods.transformations.remove_unused_imports",
                                                                                "codemodder.codemods.imported_call_modifier", "codemodder.utils.clean_code"):
                mods.add(k.__module__)
    return [importlib.import_module(m) for m in sorted(mods)]


def install_lines():
    if not _LINES["n"]:
        import importlib

        mods = [importlib.import_module(m) for m in LINE_MODULES]
        _LINES["n"] = sched.install_line_events(mods, _line_cb)
    return _LINES["n"]

_CUR = [None]
_SEAMS = []
_STATE = {}


def _pt(label):
    s = _CUR[0]
    if s is not None:
        s.point(label)


def _wrap(obj, name, label, after=False):
    fn = obj.__dict__.get(name) if isinstance(obj, type) else getattr(obj, name, None)
    if fn is None:
        return False
    raw = fn.__func__ if isinstance(fn, (classmethod, staticmethod)) else fn
    if getattr(raw, "_cmverif_seam", False):
        return True

    def wrapper(*a, **kw):
        _pt((label, "enter"))
        try:
            return raw(*a, **kw)
        finally:
            if after:
                _pt((label, "exit"))

    wrapper._cmverif_seam = True
    wrapper.__name__ = getattr(raw, "__name__", name)
    if isinstance(fn, classmethod):
        setattr(obj, name, classmethod(wrapper))
    elif isinstance(fn, staticmethod):
        setattr(obj, name, staticmethod(wrapper))
    else:
        setattr(obj, name, wrapper)
    return True


def install_seams():
    """Function-level scheduling points on everything a per-file task does to shared or per-file state."""
    if _SEAMS:
        return _SEAMS
    import codemodder.codemods.base_codemod as bc
    import codemodder.codemods.libcst_transformer as lt
    import codemodder.file_context as fc

    got = {
        "process_file": _wrap(bc.BaseCodemod, "_process_file", "process_file", after=True),
        "apply": _wrap(lt.LibcstTransformerPipeline, "apply", "pipeline.apply", after=True),
        "transform": _wrap(lt.LibcstResultTransformer, "transform", "transform", after=True),
        "diff": _wrap(lt, "create_diff_from_tree", "diff"),
        "write": _wrap(lt, "update_code", "write", after=True),
        "add_changeset": _wrap(fc.FileContext, "add_changeset", "add_changeset"),
        "add_failure": _wrap(fc.FileContext, "add_failure", "add_failure"),
        "add_dependency": _wrap(fc.FileContext, "add_dependency", "add_dependency"),
        "file_line_patterns": _wrap(bc, "file_line_patterns", "file_line_patterns"),
        # state that transformers keep outside the tree: scheduled imports (libcst CodemodContext.scratch) and the
        # nested codemod passes that consume it
        "schedule_add_import": _wrap(lt.AddImportsVisitor, "add_needed_import", "schedule_add_import", after=True),
        "schedule_remove_import": _wrap(lt.RemoveImportsVisitor, "remove_unused_import_by_node", "schedule_remove_import", after=True),
        "nested_codemod_pass": _wrap(__import__("libcst.codemod", fromlist=["Codemod"]).Codemod, "transform_module", "codemod_pass", after=True),
    }
    import codemodder.codemods.regex_transformer as rt
    import codemodder.codemods.xml_transformer as xt

    got["regex.apply"] = _wrap(rt.RegexTransformerPipeline, "apply", "regex.apply", after=True)
    got["sast_regex.apply"] = _wrap(rt.SastRegexTransformerPipeline, "apply", "sast_regex.apply", after=True)
    got["xml.apply"] = _wrap(xt.XMLTransformerPipeline, "apply", "xml.apply", after=True)
    _SEAMS.append(got)
    return _SEAMS


def _plugin_codemod(spec, sarif_path):
    """A plugin-style remediation codemod on the regex / XML pipeline, as a third party would write it."""
    import functools

    from codemodder.codemods.api import Metadata, RemediationCodemod, ReviewGuidance
    from codemodder.codemods.base_detector import BaseDetector
    from codemodder.codemods.regex_transformer import SastRegexTransformerPipeline
    from codemodder.codemods.xml_transformer import ElementAttributeXMLTransformer, XMLTransformerPipeline
    from codemodder.semgrep import SemgrepResultSet

    class SarifDetector(BaseDetector):
        def apply(self, codemod_id, context):
            return SemgrepResultSet.from_sarif(sarif_path)

    class PluginCodemod(RemediationCodemod):
        @property
        def origin(self):
            return "acme"

        @property
        def docs_module_path(self):
            return "acme.docs"

    if spec["plugin"] == "regex":
        transformer = SastRegexTransformerPipeline(pattern=r"http://", replacement="https://", change_description="Use https")
        ext = [".html"]
    else:
        transformer = XMLTransformerPipeline(functools.partial(ElementAttributeXMLTransformer, name_attributes_map={"item": {"a": "9"}}))
        ext = [".xml"]
    return PluginCodemod(
        metadata=Metadata(name="plugin-" + spec["plugin"], summary="plugin", review_guidance=ReviewGuidance.MERGE_WITHOUT_REVIEW, description="plugin codemod"),
        detector=SarifDetector(), transformer=transformer, default_extensions=ext, requested_rules=["acme-rule"],
    )


def _plugin_sarif(spec):
    results = []
    for path, lines in spec["findings"].items():
        for line in lines:
            results.append({"ruleId": "acme-rule", "message": {"text": "m"}, "fingerprints": {"matchBasedId/v1": f"{path}-{line}"},
                            "locations": [{"physicalLocation": {"artifactLocation": {"uri": path, "uriBaseId": "%SRCROOT%"},
                                                                "region": {"startLine": line, "endLine": line, "startColumn": 1, "endColumn": 40, "snippet": {"text": "x"}}}}]})
    return json.dumps({"version": "2.1.0", "runs": [{"tool": {"driver": {"name": "Semgrep OSS", "rules": []}}, "results": results}]}).encode()


def _state(driver):
    st = _STATE.get(driver)
    if st is not None:
        return st
    drive.init_inproc()
    install_seams()
    import codemodder.codemods.semgrep as cs
    from codemodder import providers, registry

    spec = codemod_spec(driver.split(":", 2)[2], int(driver.split(":", 2)[1])) if driver.startswith("codemod:") else DRIVERS[driver]
    root = core.scratch_root() / f"sched-{driver.replace(':', '_').replace('/', '_')}"
    reg = registry.load_registered_codemods()
    codemod = None if spec.get("plugin") else next(c for c in reg.codemods if c.id == spec["codemod"])
    memo = {}
    raw_run = getattr(cs.semgrep_run, "__wrapped__", cs.semgrep_run)

    def memo_run(context, yaml_files, files_to_analyze=None):
        # the detector runs before the thread pool, in the main thread; its answer for an identical tree is reused
        key = (str(context.directory), tuple(sorted((str(p), hashlib.sha256(p.read_bytes()).hexdigest()) for p in Path(context.directory).rglob("*.py"))))
        if key not in memo:
            memo[key] = raw_run(context, yaml_files, files_to_analyze)
        return memo[key]

    st = {"root": root, "reg": reg, "codemod": codemod, "providers": providers.load_providers(), "memo_run": memo_run, "spec": spec}
    _STATE[driver] = st
    return st


def run_once(driver, prefix, gran="coarse", workers=None):
    """One complete execution under the given schedule prefix -> (Scheduler, outcome hash, detail)."""
    import codemodder.codemods.base_codemod as bc
    import codemodder.codemods.semgrep as cs
    from codemodder.context import CodemodExecutionContext
    from codemodder.project_analysis.python_repo_manager import PythonRepoManager

    st = _state(driver)
    spec, root = st["spec"], st["root"]
    proj, resd = root / "proj", root / "res"
    shutil.rmtree(root, ignore_errors=True)
    drive.write_tree(proj, spec["files"])
    resd.mkdir(parents=True, exist_ok=True)
    tool_map = {}
    if spec.get("defectdojo"):
        paths = []
        for k, page in enumerate(spec["defectdojo"]):
            doc = {"results": [{"id": 100 * (k + 1) + j, "title": "python.django.security.audit.avoid-insecure-deserialization.avoid-insecure-deserialization", "file_path": f, "line": 3} for j, f in enumerate(page)]}
            (resd / f"page{k}.json").write_text(json.dumps(doc))
            paths.append(str(resd / f"page{k}.json"))
        tool_map = {"defectdojo": paths}
    if spec.get("sonar"):
        (resd / "h.json").write_bytes(_sonar(spec["sonar"]))
        tool_map = {"sonar": [str(resd / "h.json")]}
    codemod = st["codemod"]
    include = []
    if spec.get("plugin"):
        (resd / "plugin.sarif").write_bytes(_plugin_sarif(spec))
        codemod = _plugin_codemod(spec, resd / "plugin.sarif")
        include = ["*.html", "*.xml"]
    drive.reset_caches()
    n_tasks = sum(1 for f in spec["files"] if f.endswith((".py", ".html", ".xml")))
    w = workers or n_tasks
    if gran == "line":
        install_lines()
    s = sched.Scheduler(prefix, trace_lines=(gran == "line"))
    if gran == "calls":
        mods = _transformer_modules(codemod)
        for m in mods:
            if m.__name__ not in _CALL_MODULES:
                _CALL_MODULES[m.__name__] = sched.install_call_events([m], _call_cb)
        s.trace_calls = {m.__file__ for m in mods}
    real_tpe, real_sem = bc.ThreadPoolExecutor, cs.semgrep_run
    sched_tpe = sched.make_executor(s)
    # every module of the code under test that holds a reference to the executor class gets the scheduled one: a pool created
    # anywhere (result-file loaders, detectors ...) is explored like the per-file pool
    import sys as _sys

    patched = []
    for name, mod in list(_sys.modules.items()):
        if mod is not None and name.startswith(("codemodder", "core_codemods")) and getattr(mod, "ThreadPoolExecutor", None) is real_tpe:
            mod.ThreadPoolExecutor = sched_tpe
            patched.append(mod)
    cs.semgrep_run = st["memo_run"]
    _CUR[0] = s
    try:
        repo_manager = PythonRepoManager(proj)
        context = CodemodExecutionContext(proj, False, False, st["reg"], st["providers"], repo_manager, include, [], tool_map, w)
        repo_manager.parse_project()
        codemod.apply(context)
        context.process_dependencies(codemod.id)
        results = context.compile_results([codemod])
    finally:
        _CUR[0] = None
        for mod in patched:
            mod.ThreadPoolExecutor = real_tpe
        cs.semgrep_run = real_sem
    tree = drive.read_tree(proj)
    rep = json.loads(json.dumps([json.loads(r.model_dump_json(exclude_none=True)) for r in results]).replace(str(root), "<S>"))
    blob = json.dumps({"tree": {k: (v.hex() if isinstance(v, bytes) else v) for k, v in sorted(tree.items())}, "results": rep}, sort_keys=True)
    return s, hashlib.sha256(blob.encode()).hexdigest()[:16], {"tree": tree, "results": rep}


def subtree_job(arg):
    """Explore every schedule below the given prefixes with at most `bound` preemptions."""
    driver, gran, bound, prefixes, cap = arg
    stats = {"points_max": 0, "in_flight_max": 0, "requested_workers": set()}

    def run(prefix):
        s, h, _ = run_once(driver, prefix, gran)
        stats["points_max"] = max(stats["points_max"], len(s.points))
        stats["in_flight_max"] = max(stats["in_flight_max"], s.max_in_flight)
        stats["requested_workers"].add(getattr(s, "requested_workers", None))
        return s, h

    n, outcomes, leftover = sched.explore(run, bound, prefixes, cap=cap)
    stats["requested_workers"] = sorted(map(str, stats["requested_workers"]))
    return n, outcomes, leftover, stats


def explore_parallel(driver, gran, bound, per_job=40):
    """Exhaustive exploration with work hand-back: -> dict(executions, outcomes, points, ...)"""
    root = drive.pmap("cmverif.checks.c11a:root_job", [(driver, gran, bound)])[0]
    queue = list(root["alts"])
    total = 3
    outcomes = {root["hash"]: []}
    stats = {"points_max": root["points"], "in_flight_max": 0, "requested_workers": set()}
    rounds = 0
    while queue:
        rounds += 1
        njobs = max(16, min(256, len(queue)))
        jobs = [(driver, gran, bound, queue[i::njobs], per_job) for i in range(njobs) if queue[i::njobs]]
        queue = []
        for n, outs, leftover, st in drive.pmap("cmverif.checks.c11a:subtree_job", jobs):
            total += n
            for h, ch in outs.items():
                outcomes.setdefault(h, ch)
            queue += leftover
            stats["points_max"] = max(stats["points_max"], st["points_max"])
            stats["in_flight_max"] = max(stats["in_flight_max"], st["in_flight_max"])
            stats["requested_workers"] |= set(st["requested_workers"])
    return {"executions": total, "outcomes": outcomes, "root": {k: v for k, v in root.items() if k != "alts"}, "rounds": rounds,
            "points_max": stats["points_max"], "in_flight_max": stats["in_flight_max"], "requested_workers": sorted(stats["requested_workers"])}


def root_job(arg):
    """The non-preemptive default execution and the list of first-level alternatives (work items)."""
    driver, gran, bound = arg
    s, h, detail = run_once(driver, [], gran)
    # determinism: the same schedule twice gives the same observation
    s2, h2, _ = run_once(driver, s.choices, gran)
    if h2 != h or s2.choices != s.choices or [p.enabled for p in s2.points] != [p.enabled for p in s.points]:
        raise core.HarnessError(f"replaying schedule of {driver}/{gran} is not deterministic")
    alts = []
    pre = 0
    ch = s.choices
    for i, p in enumerate(s.points):
        cost = pre + (1 if p.running_enabled else 0)
        if cost <= bound:
            for alt in range(1, len(p.enabled)):
                alts.append(ch[:i] + [alt])
        if p.running_enabled and p.chosen != 0:
            pre += 1
    seq, hseq, _ = run_once(driver, [], gran, workers=1)
    labels = sorted({str(p.label[0]) if isinstance(p.label, tuple) else str(p.label) for p in s.points})
    return {"hash": h, "alts": alts, "points": len(s.points), "seq_hash": hseq, "seams": _SEAMS[0] if _SEAMS else {}, "labels": labels, "tasks": len(s.tasks)}


def detail_job(arg):
    driver, choices, gran = arg
    _, h, detail = run_once(driver, choices, gran)
    return h, detail


def explore_cached(driver, gran, bound):
    """explore_parallel + the observation (tree, results) of every distinct outcome, shared between C11, C15, C18 and C19."""
    from .. import cache

    def compute():
        r = explore_parallel(driver, gran, bound)
        items = [(driver, ch, gran) for ch in r["outcomes"].values()]
        r["details"] = {h: d for h, d in drive.pmap("cmverif.checks.c11a:detail_job", items)}
        r["files"] = dict(DRIVERS[driver]["files"])
        return r

    val, hit = cache.cached(f"sched-{driver}-{gran}-{bound}", compute)
    return val


def codemod_race_job(arg):
    """Every interleaving with <= 1 preemption of the per-file tasks of one codemod, visitor-callback granularity, in this worker."""
    cm, n_seeds = arg
    if codemod_spec(cm, n_seeds) is None:
        return cm, 0, 0, None, 0
    driver = f"codemod:{n_seeds}:{cm}"
    pts = [0]

    def run(prefix):
        s, h, _ = run_once(driver, prefix, "calls")
        pts[0] = max(pts[0], len(s.points))
        return s, h

    s0, h0 = run([])
    s1, h1 = run(s0.choices)
    if h0 != h1 or s0.choices != s1.choices:
        raise core.HarnessError(f"replaying the default schedule of {driver} is not deterministic")
    n, outcomes, _ = sched.explore(run, 1)
    alt = next((ch for h, ch in outcomes.items() if h != h0), None)
    return cm, n, len(outcomes), alt, pts[0]
