"""C14 - adding a dependency keeps the manifest valid, complete and duplicate-free.

Explicit enumeration of manifest contents (per-format line / section alphabets, sequences up to the stated length,
file shapes, the needed package already declared under other spellings / versions) x dependencies x subsets of
manifest kinds present.  The bulk drives CodemodExecutionContext.process_dependencies through the public classes
(PythonRepoManager, DependencyManager, the four writers); a selection also goes through a full CLI run.
Oracle: independent readers (oracles/manifests.py).
"""
from __future__ import annotations

import difflib
import itertools

from packaging.utils import canonicalize_name

from .. import core, drive, manifests_space as ms
from ..core import Violation
from ..oracles import manifests as mread

PROP = "C14"
DEPS = ["Fickling", "Security", "DefusedXML", "FlaskWTF"]
KINDS = ["pyproject.toml", "setup.py", "requirements.txt", "setup.cfg"]


def dep_obj(name):
    import codemodder.dependency as d

    return getattr(d, name)


def dep_canon(name):
    return {"Fickling": "fickling", "Security": "security", "DefusedXML": "defusedxml", "FlaskWTF": "flask-wtf"}[name]


def present_line(dep, spelling, version):
    base = {"Fickling": "fickling", "Security": "security", "DefusedXML": "defusedxml", "FlaskWTF": "flask-wtf"}[dep]
    nm = ms.req_present(base, spelling)
    return nm + (version or "")


# --------------------------------------------------------------------------- case generation


def cases(tier):
    out = []
    maxlen = 1 if tier == "quick" else 2
    deps_quick = ["Fickling", "FlaskWTF"]
    deps = DEPS if tier == "thorough" else deps_quick
    # requirements.txt: line sequences x shapes
    for label, text in ms.req_texts(maxlen):
        for shp in ms.SHAPES:
            for dep in deps if (len(label.split("+")) <= 1) else deps[:1]:
                out.append(("requirements.txt", f"seq:{label}", text, shp, dep, True))
    out.append(("requirements.txt", "utf16", None, "utf16", "Fickling", True))
    # the needed package already declared
    for dep in DEPS:
        for spelling in ("same", "upper", "underscore", "dot", "title"):
            for version in ("", "==0.0.1", ">=0.0.1  # pinned"):
                pl = present_line(dep, spelling, version)
                out.append(("requirements.txt", f"present:{spelling}:{bool(version)}", f"requests\n{pl}\n", "lf", dep, True))
                out.append(("setup.cfg", f"present:{spelling}:{bool(version)}", f"[options]\ninstall_requires =\n    requests\n    {pl.split('  #')[0]}\n", "lf", dep, True))
                out.append(("pyproject.toml", f"present:{spelling}:{bool(version)}", f'[project]\nname = "demo"\ndependencies = [\n    "requests",\n    "{pl.split("  #")[0]}",\n]\n', "lf", dep, True))
                out.append(("setup.py", f"present:{spelling}:{bool(version)}", f'from setuptools import setup\n\nsetup(name="demo", install_requires=["requests", "{pl.split("  #")[0]}"])\n', "lf", dep, True))
            out.append(("pyproject.toml", f"present-poetry:{spelling}", f'[tool.poetry]\nname = "demo"\n\n[tool.poetry.dependencies]\npython = "^3.10"\n{present_line(dep, spelling, "")} = "*"\n', "lf", dep, True))
    for kind in ("setup.cfg", "pyproject.toml", "setup.py"):
        table, updatable = ms.KINDS[kind]
        for label, text in table.items():
            for shp in ms.SHAPES:
                for dep in deps:
                    out.append((kind, label, text, shp, dep, label in updatable))
    return out


def case_files(case):
    kind, label, text, shp, dep, upd = case
    if shp == "utf16":
        return {kind: "requests\nflask\n".encode("utf-16")}
    return {kind: ms.shape(text, shp)}


def subset_cases():
    base = {
        "pyproject.toml": ms.PYPROJECT["pep621-multiline"], "setup.py": ms.SETUP_PY["multiline-trailing"],
        "requirements.txt": "requests\n", "setup.cfg": ms.SETUP_CFG["multiline"],
    }
    nonupd = {"pyproject.toml": ms.PYPROJECT["no-project"], "setup.py": ms.SETUP_PY["no-install-requires"], "setup.cfg": ms.SETUP_CFG["no-options"]}
    out = []
    for r in range(1, 5):
        for sub in itertools.combinations(KINDS, r):
            out.append(("subset", "+".join(sub), {k: base[k].encode() for k in sub}))
            if len(sub) >= 2:
                out.append(("subset-two-codemods", "+".join(sub), {k: base[k].encode() for k in sub}))
            # the preferred kind present but not updatable: the next one must take it, still at most one
            if len(sub) >= 2 and sub[0] in nonupd:
                f = {k: base[k].encode() for k in sub}
                f[sub[0]] = nonupd[sub[0]].encode()
                out.append(("subset-first-not-updatable", "+".join(sub), f))
    return out


# --------------------------------------------------------------------------- driver (bulk, in worker processes)


def apply_dependency(files: dict, dep_name: str, codemod_id="pixee:python/harden-pickle-load", same_context_twice=False):
    """Public-class path of a dependency update: returns (tree after first application, tree after second, changeset paths, exc)."""
    import shutil

    from codemodder import providers, registry
    from codemodder.context import CodemodExecutionContext
    from codemodder.project_analysis.python_repo_manager import PythonRepoManager

    drive.init_inproc()
    st = apply_dependency.__dict__.setdefault("st", {})
    if not st:
        st["reg"], st["prov"] = registry.load_registered_codemods(), providers.load_providers()
    root = core.scratch_root() / "dep"
    shutil.rmtree(root, ignore_errors=True)
    drive.write_tree(root, files)
    trees, paths, exc = [], [], None
    for _ in range(2):
        try:
            rm = PythonRepoManager(root)
            ctx = CodemodExecutionContext(root, False, False, st["reg"], st["prov"], rm, [], [], {}, 1)
            rm.parse_project()
            ctx.add_dependencies(codemod_id, {dep_obj(dep_name)})
            ctx.process_dependencies(codemod_id)
            paths.append([c.path for c in ctx.get_changesets(codemod_id)])
            if same_context_twice:
                # a second codemod of the same run needs the same package
                other = "pixee:python/use-defusedxml"
                ctx.add_dependencies(other, {dep_obj(dep_name)})
                ctx.process_dependencies(other)
                paths[-1] += [c.path for c in ctx.get_changesets(other)]
        except Exception as e:  # the run would die with a traceback
            exc = f"{type(e).__name__}: {e}"
            paths.append([])
        trees.append(drive.read_tree(root))
    return trees[0], trees[1], paths, exc


def _content_preserved(before: bytes, after: bytes):
    """Every byte sequence of the original survives, only additions are allowed (line granular, then in-line)."""
    b, a = before.decode("utf-8", "replace").splitlines(True), after.decode("utf-8", "replace").splitlines(True)
    if b and not b[-1].endswith(("\n", "\r")):
        b[-1] += "\n"  # the property tolerates terminating the last line
        if a and not a[-1].endswith(("\n", "\r")):
            a[-1] += "\n"
    sm = difflib.SequenceMatcher(None, b, a, autojunk=False)
    for op, i1, i2, j1, j2 in sm.get_opcodes():
        if op == "delete":
            return f"lines removed: {b[i1:i2]!r}"
        if op == "replace":
            old, new = "".join(b[i1:i2]), "".join(a[j1:j2])
            it = iter(new)
            if not all(ch in it for ch in old if not ch.isspace()):
                return f"line(s) rewritten: {old!r} -> {new!r}"
    return None


def judge(files, after, after2, paths, exc, dep, updatable_kinds):
    out = []
    if exc:
        return [("exception", f"dependency update raised {exc}")]
    canon = dep_canon(dep)
    changed = sorted(k for k in files if after.get(k) != files[k])
    created = sorted(k for k in after if k not in files)
    if created:
        out.append(("file-created", f"files created: {created}"))
    if len(changed) > 1:
        out.append(("several-manifests-updated", f"more than one manifest changed: {changed}"))
    declared_before = False
    readable = {}
    for k, data in files.items():
        ok, names, err = mread.read(k, data)
        readable[k] = ok
        if ok and names.get(canon):
            declared_before = True
    for k in changed:
        if not readable.get(k):
            continue  # the manifest did not parse before: out of scope
        okb, nb, _ = mread.read(k, files[k])
        oka, na, erra = mread.read(k, after[k])
        if not oka:
            out.append((f"{k}:does-not-parse", f"{k} no longer parses after the update: {erra}; content: {after[k]!r:.300}"))
            continue
        lost = sorted(n for n in nb if na.get(n, 0) < nb[n])
        if lost:
            out.append((f"{k}:requirement-lost", f"{k}: previously declared requirements lost: {lost}"))
        if na.get(canon, 0) - nb.get(canon, 0) > 1 or (nb.get(canon, 0) == 0 and na.get(canon, 0) != 1):
            out.append((f"{k}:not-exactly-once", f"{k}: {canon} declared {na.get(canon, 0)} times after the update (before: {nb.get(canon, 0)})"))
        why = _content_preserved(files[k], after[k])
        if why:
            out.append((f"{k}:content-not-preserved", f"{k}: {why}"))
    if declared_before and changed:
        out.append(("already-declared-but-updated", f"{canon} was already declared but {changed} changed: {after[changed[0]]!r:.200}"))
    if not declared_before and not changed and updatable_kinds and all(readable.get(k) for k in updatable_kinds):
        out.append(("updatable-manifest-not-updated", f"no manifest was updated although {sorted(updatable_kinds)} can take a dependency"))
    if after2 != after:
        ch2 = sorted(k for k in after if after2.get(k) != after[k])
        out.append(("second-run-adds-again", f"a second update changed {ch2} again: {after2.get(ch2[0])!r:.200}"))
    if sorted(set(p for p in paths[0])) != changed and not created:
        out.append(("changeset-vs-changed", f"changesets {paths[0]} but changed files {changed}"))
    return out


def eval_case(case):
    if case[0] in ("subset", "subset-first-not-updatable", "subset-two-codemods"):
        _, label, files = case
        dep = "Fickling"
        a1, a2, paths, exc = apply_dependency(files, dep, same_context_twice=(case[0] == "subset-two-codemods"))
        found = judge(files, a1, a2, paths, exc, dep, set(files))
        changed = sorted(k for k in files if a1.get(k) != files[k])
        return [(f"{case[0]}:{label}|{k}", d) for k, d in found], bool(changed)
    kind, label, text, shp, dep, upd = case
    files = case_files(case)
    a1, a2, paths, exc = apply_dependency(files, dep)
    # "must be updated" is only demanded of plain, well-formed, non-empty LF manifests; for other shapes the tool may
    # declare the manifest not updatable (the report then has to say so - checked end to end)
    must = upd and shp == "lf" and bool((text or "").strip())
    found = judge(files, a1, a2, paths, exc, dep, {kind} if must else set())
    if label.startswith("present"):
        lab = ":".join(label.split(":")[:2])
    else:
        lab = label if shp == "lf" else "*"
    return [(f"{kind}:{lab}:{shp}|{k.split(':')[-1]}", d) for k, d in found], a1 != files


# --------------------------------------------------------------------------- end to end


TRAP_LOCATION = "build/dist/venv/.venv/.tox/.eggs/node_modules/site-packages/tests/proj"


def e2e_cases():
    pick = ms.DEP_TRIGGERS["pixee:python/harden-pickle-load"][0]
    out = [("none", {}), ("requirements-empty", {"requirements.txt": b""}), ("requirements-one", {"requirements.txt": b"requests\n"})]
    for kind in ("setup.cfg", "pyproject.toml", "setup.py"):
        table, updatable = ms.KINDS[kind]
        for label in table:
            out.append((f"{kind}:{label}", {kind: table[label].encode()}))
    return [(l, dict(f, **{"app.py": pick})) for l, f in out]


def e2e_eval(arg, cli=False):
    label, files = arg
    job = drive.Job(files=files, argv=["{dir}", "--codemod-include", "pixee:python/harden-pickle-load"])
    obs = (drive.run_cli if cli else drive.run_inproc)(job)
    if obs.error:
        raise core.HarnessError(obs.error)
    out = []
    if obs.exit != 0:
        return [(f"e2e:{label}|exit-{obs.exit if isinstance(obs.exit, int) else 'exception'}", f"run exited {obs.exit}: {obs.stderr[-1][-300:]}")]
    manifests = [k for k in files if k != "app.py"]
    changed = [k for k in manifests if obs.final.get(k) != files[k]]
    res = (obs.report or {}).get("results") or [{}]
    desc = res[0].get("description", "")
    if obs.final.get("app.py") == files["app.py"]:
        raise core.HarnessError("e2e trigger did not fire")
    if not changed and "unable to automatically add the dependency" not in desc and "Manual Installation" not in desc:
        out.append((f"e2e:{label}|no-manual-notice", "no manifest was updated but the report's description carries no manual-installation notice"))
    if changed and "automatically added this dependency" not in desc:
        out.append((f"e2e:{label}|no-update-notice", "a manifest was updated but the description does not say so"))
    # the same project checked out below directories whose names are excluded / special elsewhere (build roots, virtualenvs,
    # test trees): which manifest is updated, and how, depends on the project, not on where it lives
    job2 = drive.Job(files=files, argv=["{dir}", "--codemod-include", "pixee:python/harden-pickle-load"], proj_rel=TRAP_LOCATION)
    obs2 = (drive.run_cli if cli else drive.run_inproc)(job2)
    if obs2.error:
        raise core.HarnessError(obs2.error)
    cs1 = sorted(c["path"] for r in (obs.report or {}).get("results", []) for c in r["changeset"])
    cs2 = sorted(c["path"] for r in (obs2.report or {}).get("results", []) for c in r["changeset"])
    if obs2.exit != obs.exit or obs2.final != obs.final or cs1 != cs2:
        diff = sorted(k for k in set(obs.final) | set(obs2.final) if obs.final.get(k) != obs2.final.get(k))
        out.append((f"e2e:{label}|outcome-depends-on-where-the-project-lives", f"under {TRAP_LOCATION}: exit {obs2.exit} vs {obs.exit}, files that differ {diff}, changesets {cs2} vs {cs1}"))
    return out


def e2e_eval_cli(arg):
    return e2e_eval(arg, cli=True)


def explore(tier, seed):
    sf = mread.selftest()
    cs = cases(tier) + subset_cases()
    res = drive.pmap("cmverif.checks.c14:eval_case", drive.seed_rotate(cs, seed), chunksize=8)
    cands = {}
    nontrivial = 0
    for case, (found, changed) in zip(drive.seed_rotate(cs, seed), res):
        nontrivial += bool(changed)
        for sig, detail in found:
            c = cands.get(sig)
            if c is None or len(repr(case)) < len(repr(c[0])):
                cands[sig] = (case, detail)
    ecs = e2e_cases()
    eres = drive.pmap("cmverif.checks.c14:e2e_eval", ecs)
    ecands = {}
    for arg, found in zip(ecs, eres):
        for sig, detail in found:
            ecands.setdefault(sig, (arg, detail))
    known_open = {k["signature"] for k in core.load_known() if k["property"] == PROP and k["status"] == "open"}
    violations = []
    divergence = []
    rps = []
    for sig, (case, detail) in sorted(cands.items()):
        rp = {"bulk": True, "case": [c if not isinstance(c, dict) else {k: v for k, v in c.items()} for c in case], "sig": sig}
        rps.append((sig, rp, f"{case[:2]} {case[3:5] if len(case) > 3 else ''}: {detail}"))
    for sig, (arg, detail) in sorted(ecands.items()):
        rps.append((sig, {"e2e": True, "label": arg[0], "sig": sig}, detail))
    new = [r for r in rps if r[0] not in known_open]
    repro = drive.confirm_replays("cmverif.checks.c14", [r[1] for r in new])
    for (sig, rp, detail), ok in zip(new, repro):
        if ok:
            violations.append(Violation(PROP, sig, detail[:600], rp, 1))
        else:
            divergence.append(sig)
    for sig, rp, detail in rps:
        if sig in known_open:
            violations.append(Violation(PROP, sig, detail[:600], rp, 1))
    coverage = {
        "states": len(cs) + len(ecs),
        "transitions": 2 * len(cs) + len(ecs),
        "traces_validated_against_impl": len(cs) + len(ecs) + 2 * len(new),
        "exhaustive": True,
        "samples": [{"kind": c[0], "label": c[1], "shape": c[3], "dependency": c[4], "content": (c[2] or "")[:200]} for c in (cs[3], cs[len(cs) // 2])] + [{"subset": subset_cases()[5][1]}],
        "manifest_cases": len(cs),
        "cases_where_a_manifest_changed": nontrivial,
        "requirements_line_alphabet": sorted(ms.REQ_LINES),
        "max_sequence_length": 1 if tier == "quick" else 2,
        "shapes": ms.SHAPES + ["utf16"],
        "dependencies": DEPS if tier == "thorough" else ["Fickling", "FlaskWTF"],
        "subset_cases": len(subset_cases()),
        "e2e_runs": len(ecs),
        "replay_divergence": divergence,
        "oracle_selftest": sf,
        "rule": "state = (manifest kind(s), content, file shape, dependency); transitions = the real dependency update applied twice (idempotence); judged by independent readers; non-trivial = a manifest changed",
    }
    assumptions = [
        "a manifest that the independent reader cannot parse before the update is out of scope",
        "type-stub packages that FlaskWTF/DefusedXML may add to poetry projects are allowed but not required",
        "'unrelated content preserved' = no line removed, rewritten lines contain every non-blank character of the original in order; terminating an unterminated last line is allowed",
    ]
    return "model_checking", coverage, violations, assumptions


def replay(rp):
    drive.init_inproc()
    if rp.get("e2e"):
        arg = next(a for a in e2e_cases() if a[0] == rp["label"])
        found = e2e_eval_cli(arg)
        return (rp["sig"] not in {s for s, _ in found}), "\n".join(d for _, d in found) or "ok"
    case = tuple(rp["case"])
    if case[0].startswith("subset"):
        case = (case[0], case[1], {k: (v if isinstance(v, bytes) else v.encode()) for k, v in case[2].items()})
    found, _ = eval_case(case)
    files = case_files(case) if not case[0].startswith("subset") else case[2]
    a1, _, _, _ = apply_dependency(files, case[4] if len(case) > 4 else "Fickling")
    txt = "\n".join(f"{s}: {d}" for s, d in found) or "manifest valid, complete and duplicate-free"
    return (rp["sig"] not in {s for s, _ in found}), txt + f"\n--- before {files}\n--- after {a1}"
