"""C15 - the CodeTF report is always well-formed, complete and internally consistent.

State invariant (vendored JSON schema + the structural invariants of the property) evaluated on every report of
  (i)  the pair histories (every reached state of the seqspace graph: batch run and both chained runs),
  (ii) a dedicated corner enumeration: zero codemods, zero files, only failures, dependency changes with and without
       manifest, non-ASCII paths and contents, Sonar / Semgrep / DefectDojo runs, dry runs, empty results between
       non-empty ones, the whole default set over one canonical seed per codemod, the whole Sonar set.
"""
from __future__ import annotations

import json

from .. import core, drive, manifests_space as ms, progspace, resultfiles, seqspace
from ..core import Violation
from ..oracles import codetf

PROP = "C15"

GEN = b"def f(xs):\n    return sum([x for x in xs])\n"
BAD = b"def broken(:\n    pass\n"
SONAR_SRC = b"import random\n\nvalue = random.random()\n"


def sonar_hotspots(path="app.py", line=3, key="AX1"):
    return json.dumps({"hotspots": [{"ruleKey": "python:S2245", "status": "TO_REVIEW", "component": f"proj:{path}", "key": key,
                                     "textRange": {"startLine": line, "endLine": line, "startOffset": 8, "endOffset": 23}}]}).encode()


def default_set_project():
    files = {}
    for s in progspace.load_seeds():
        if s.kind == "trigger" and s.origin == "pixee" and s.batchable and s.id.endswith(".01"):
            files[f"src/{s.codemod.split('/')[-1].replace('-', '_')}.py"] = s.input.encode()
    files["requirements.txt"] = b"requests\n"
    files["src/broken.py"] = BAD
    files["src/módulo ünï.py"] = "# ünï\nvalor = sum([x for x in range(3)])\n".encode()
    return files


def sonar_set_project():
    files, docs = {}, []
    for s in progspace.load_seeds():
        if s.kind == "trigger" and s.tool == "sonar" and s.batchable:
            path = f"{s.id.replace('.', '_')}.py"
            files[path] = s.input.encode()
            docs.append(resultfiles.relocate("sonar", s.results, path))
    files["bad.py"] = BAD
    docs.append({"issues": [{"rule": "python:S2245", "status": "OPEN", "component": "proj:bad.py", "key": "B1", "textRange": {"startLine": 1, "endLine": 1, "startOffset": 0, "endOffset": 3}}]})
    argv, res = resultfiles.argv_and_files("sonar", docs)
    return files, argv, res


def corners(tier):
    J = drive.Job
    pick = ms.DEP_TRIGGERS["pixee:python/harden-pickle-load"][0]
    c = {}
    c["zero-codemods"] = J(files={"app.py": GEN}, argv=["{dir}", "--codemod-include", "pixee:python/no-such"])
    c["zero-files-empty-dir"] = J(files={"empty/": ("dir",)}, argv=["{dir}", "--codemod-include", "pixee:python/use-generator"])
    c["zero-files-all-excluded"] = J(files={"app.py": GEN}, argv=["{dir}", "--codemod-include", "pixee:python/use-generator", "--path-exclude", "*.py,**/*.py"])
    c["zero-files-default-set"] = J(files={"notes.txt": b"x\n"}, argv=["{dir}"])
    c["only-failures"] = J(files={"bad.py": BAD}, argv=["{dir}", "--codemod-include", "pixee:python/use-generator"])
    c["failure-and-change"] = J(files={"bad.py": BAD, "app.py": GEN}, argv=["{dir}", "--codemod-include", "pixee:python/use-generator"])
    c["dependency-with-manifest"] = J(files={"app.py": pick, "requirements.txt": b"requests\n"}, argv=["{dir}", "--codemod-include", "pixee:python/harden-pickle-load"])
    c["dependency-without-manifest"] = J(files={"app.py": pick}, argv=["{dir}", "--codemod-include", "pixee:python/harden-pickle-load"])
    c["dependency-not-updatable"] = J(files={"app.py": pick, "setup.py": ms.SETUP_PY["no-install-requires"].encode()}, argv=["{dir}", "--codemod-include", "pixee:python/harden-pickle-load"])
    for k in ("pep621-multiline", "poetry"):
        c[f"dependency-pyproject-{k}"] = J(files={"app.py": pick, "pyproject.toml": ms.PYPROJECT[k].encode()}, argv=["{dir}", "--codemod-include", "pixee:python/harden-pickle-load"])
    c["dependency-setup-cfg"] = J(files={"app.py": pick, "setup.cfg": ms.SETUP_CFG["multiline"].encode()}, argv=["{dir}", "--codemod-include", "pixee:python/harden-pickle-load"])
    c["dependency-setup-py"] = J(files={"app.py": pick, "setup.py": ms.SETUP_PY["multiline-trailing"].encode()}, argv=["{dir}", "--codemod-include", "pixee:python/harden-pickle-load"])
    # every manifest content of the C14 alphabet (one-line requirement sequences, with and without trailing blank lines
    # / final newline, and every section shape of the other formats): the dependency change entries must stay inside the file
    for label, text in ms.req_texts(1):
        for shp, data in (("lf", text.encode()), ("nofinal", text.rstrip("\n").encode()), ("trailing-blank", (text + "\n\n").encode())):
            c[f"dep-req:{label}:{shp}"] = J(files={"app.py": pick, "requirements.txt": data}, argv=["{dir}", "--codemod-include", "pixee:python/harden-pickle-load"])
    for kind in ("setup.cfg", "pyproject.toml", "setup.py"):
        for label, text in ms.KINDS[kind][0].items():
            c[f"dep-{kind}:{label}"] = J(files={"app.py": pick, kind: text.encode()}, argv=["{dir}", "--codemod-include", "pixee:python/harden-pickle-load"])
            c[f"dep-{kind}:{label}:trailing-blank"] = J(files={"app.py": pick, kind: (text + "\n\n").encode()}, argv=["{dir}", "--codemod-include", "pixee:python/harden-pickle-load"])
    c["non-ascii"] = J(files={"módulo/ünï cöde.py": "# ünïcödé ✓\nπ = sum([x for x in range(3)])\n".encode()}, argv=["{dir}", "--codemod-include", "pixee:python/use-generator"])
    c["dry-run"] = J(files={"app.py": GEN, "requirements.txt": b"requests\n", "p.py": pick}, argv=["{dir}", "--codemod-include", "pixee:python/use-generator,pixee:python/harden-pickle-load", "--dry-run"])
    c["empty-between"] = J(files={"app.py": GEN, "p.py": pick}, argv=["{dir}", "--codemod-include", "pixee:python/use-generator,pixee:python/use-set-literal,pixee:python/secure-random,pixee:python/harden-pickle-load,pixee:python/no-such"])
    # every registered pixee codemod at least once (default-excluded ones included): per-result metadata is complete
    c["every-pixee-codemod"] = J(files={"app.py": GEN}, argv=["{dir}", "--codemod-include", "pixee:*"])
    c["duplicate-include"] = J(files={"app.py": GEN}, argv=["{dir}", "--codemod-include", "pixee:python/use-generator,pixee:python/use-gen*,pixee:python/use-generator"])
    c["sonar"] = J(files={"app.py": SONAR_SRC}, argv=["{dir}", "--codemod-include", "sonar:python/secure-random", "--sonar-hotspots-json", "{res:h.json}"], results={"h.json": sonar_hotspots()})
    c["sonar-failure-unfixed"] = J(files={"app.py": BAD}, argv=["{dir}", "--codemod-include", "sonar:python/secure-random", "--sonar-hotspots-json", "{res:h.json}"], results={"h.json": sonar_hotspots(line=1)})
    c["sonar-no-match"] = J(files={"app.py": SONAR_SRC}, argv=["{dir}", "--codemod-include", "sonar:python/secure-random", "--sonar-hotspots-json", "{res:h.json}"], results={"h.json": sonar_hotspots(line=1)})
    for s in progspace.load_seeds():
        if s.kind == "trigger" and s.tool in ("semgrep", "defectdojo") and s.batchable and s.id.endswith(".01"):
            argv, res = resultfiles.argv_and_files(s.tool, [resultfiles.relocate(s.tool, s.results, "code.py")])
            c[f"{s.tool}:{s.codemod.split('/')[-1]}"] = J(files={"code.py": s.input.encode()}, argv=["{dir}", "--codemod-include", s.codemod] + argv, results=res)
            c[f"{s.tool}:{s.codemod.split('/')[-1]}:with-manifest"] = J(files={"code.py": s.input.encode(), "requirements.txt": b"requests\n"}, argv=["{dir}", "--codemod-include", s.codemod] + argv, results=res)
    # faults (harness-injected): IF the run completes and writes its report, the report must still be consistent - a file that
    # failed is not also reported as changed, every changeset names a file that exists.  A run that aborts is not judged here.
    for cm, src in (("pixee:python/use-generator", GEN), ("pixee:python/harden-pickle-load", pick)):
        short = cm.split("/")[-1]
        for kind in ("write-oserror", "raise-entry", "raise-node", "delete-before"):
            spec = {"file": "locked.py", "kind": kind, "at": "last"}
            c[f"fault:{kind}:{short}"] = J(files={"locked.py": src, "pkg/free.py": src, "requirements.txt": b"requests\n"}, argv=["{dir}", "--codemod-include", cm + ",pixee:python/use-set-literal"],
                                           pre_hook="cmverif.faults:install", pre_hook_arg={"faults": [spec]})
    for s in progspace.load_seeds():
        if s.kind == "trigger" and s.tool == "sonar" and s.batchable and s.id.endswith(".01") and s.codemod.split("/")[-1] in ("url-sandbox", "sandbox-process-creation"):
            argv, res = resultfiles.argv_and_files("sonar", [resultfiles.relocate("sonar", s.results, "code.py")])
            for man, data in (("requirements.txt", b"requests\n"), ("setup.cfg", ms.SETUP_CFG["multiline"].encode()), ("pyproject.toml", ms.PYPROJECT["pep621-multiline"].encode())):
                c[f"sonar:{s.codemod.split('/')[-1]}:with-{man}"] = J(files={"code.py": s.input.encode(), man: data}, argv=["{dir}", "--codemod-include", s.codemod] + argv, results=res)
    c["default-set"] = J(files=default_set_project(), argv=["{dir}"])
    files, argv, res = sonar_set_project()
    c["sonar-set"] = J(files=files, argv=["{dir}"] + argv, results=res)
    if tier == "thorough":
        c["default-set-exclude"] = J(files=default_set_project(), argv=["{dir}", "--codemod-exclude", "pixee:python/secure-*"])
        c["default-set-workers"] = J(files=default_set_project(), argv=["{dir}", "--max-workers", "4"])
        c["default-set-dry"] = J(files=default_set_project(), argv=["{dir}", "--dry-run"])
        for shp in ("crlf", "nofinal", "bom"):
            c[f"shape-{shp}"] = J(files={"app.py": {"crlf": GEN.replace(b"\n", b"\r\n"), "nofinal": GEN.rstrip(b"\n"), "bom": b"\xef\xbb\xbf" + GEN}[shp]}, argv=["{dir}", "--codemod-include", "pixee:python/use-generator"])
    return c


def corner_eval(arg):
    label, job = arg
    obs = drive.run_inproc(job)
    if obs.error:
        raise core.HarnessError(obs.error)
    return _corner_judge(label, obs)


def _corner_judge(label, obs):
    if label.startswith("fault:") and obs.exit != 0:
        return [], 0, 0  # the run did not complete: nothing to validate (C10 owns what a fault may do to the run)
    if obs.exit != 0:
        return [(f"corner:{label}|exit-{obs.exit if isinstance(obs.exit, int) else 'exception'}", f"run did not complete: {obs.exit} {obs.stderr[-1][-300:]}")], 0, 0
    found = codetf.validate(obs.report, before=obs.before, after=obs.final, logs=obs.logs[-1])
    nres = len((obs.report or {}).get("results", []))
    ncs = sum(len(r["changeset"]) for r in (obs.report or {}).get("results", []))
    return [(f"corner:{label}|{k}", d) for k, d in found], nres, ncs


def explore(tier, seed):
    cs = corners(tier)
    items = drive.seed_rotate(sorted(cs.items()), seed)
    res = drive.pmap("cmverif.checks.c15:corner_eval", items)
    cands = {}
    nres = ncs = 0
    for (label, job), (found, a, b) in zip(items, res):
        nres += a
        ncs += b
        for sig, detail in found:
            cands.setdefault(sig, ({"corner": label, "sig": sig}, detail))
    pairs, hit, wall = seqspace.explore_pairs(tier, seed)
    nrep = 0
    for (k1, k2), rec in sorted(pairs.items()):
        for name, before, lite in (("batch", rec["files"], rec["batch"]), ("chain1", rec["files"], rec["chain"][0]), ("chain2", rec["chain"][0]["tree"], rec["chain"][1])):
            nrep += 1
            if lite["exit"] != 0:
                continue
            for k, d in codetf.validate(lite["report"], before=before, after=lite["tree"], logs=lite["logs"]):
                # a defect of one codemod's result (e.g. an empty description) is the same defect in every history it occurs in
                sig = f"result|{k}" if k.startswith(("empty-summary:", "empty-description:")) else f"seq|{k1}>{k2}|{name}|{k}"
                cands.setdefault(sig, ({"sequence": True, "pair": [k1, k2], "step": name, "kind": k}, d))
    # every distinct outcome of the thread-schedule explorations (C11's drivers, <= 1 preemption): the report of a run with
    # several workers obeys the same invariants whatever the interleaving
    from . import c11a

    sched_outcomes = 0
    for drv, gran in (("semgrep-detected", "line"), ("detector-less", "coarse"), ("sonar", "line")):
        r = c11a.explore_cached(drv, gran, 1)
        before = {k: v for k, v in r["files"].items()}
        for h, detail in sorted(r["details"].items()):
            sched_outcomes += 1
            for k, d in codetf.validate_results(detail["results"], before=before, after=detail["tree"]):
                cands.setdefault(f"schedule|{drv}|{k}", ({"schedule": drv, "gran": gran, "choices": r["outcomes"][h], "kind": k}, f"under schedule {r['outcomes'][h][:30]}: {d}"))
    known_open = {k["signature"] for k in core.load_known() if k["property"] == PROP and k["status"] == "open"}
    violations, divergence = [], []
    new = [(sig, c) for sig, c in sorted(cands.items()) if sig not in known_open]
    repro = drive.confirm_replays("cmverif.checks.c15", [dict(c[0], sig=sig) for sig, c in new])
    for (sig, (rp, detail)), ok in zip(new, repro):
        if ok:
            violations.append(Violation(PROP, sig, detail[:500], dict(rp, sig=sig), 1))
        else:
            divergence.append(sig)
    for sig, (rp, detail) in sorted(cands.items()):
        if sig in known_open:
            violations.append(Violation(PROP, sig, detail[:500], dict(rp, sig=sig), 1))
    coverage = {
        "states": len(cs) + nrep,
        "transitions": len(cs) + nrep,
        "traces_validated_against_impl": len(cs) + nrep,
        "exhaustive": True,
        "samples": [{"corner": l, "argv": j.argv[:6], "files": sorted(j.files)[:5]} for l, j in sorted(cs.items())[:3]],
        "corner_configurations": sorted(cs),
        "reports_validated": len(cs) + nrep,
        "results_validated_in_corners": nres,
        "changesets_validated_in_corners": ncs,
        "pair_history_reports": nrep,
        "schedule_outcomes_validated": sched_outcomes,
        "pair_cache_hit": hit,
        "cli_divergence": divergence,
        "rule": "state = a completed run with --output; invariant = schema + structural invariants of C15 on its report, tree and log",
    }
    assumptions = [
        "when no codemod is executed (no files / no codemods) the expected result sequence is the selected sequence listed in the setup log section",
        "lineNumber bound = max(lines before, lines after) of the named file",
        "the vendored schema is deliberately no stricter than the property text",
    ]
    return "model_checking", coverage, violations, assumptions


def replay(rp):
    if rp.get("schedule"):
        from . import c11a

        drive.init_inproc()
        _, h, detail = c11a.run_once(rp["schedule"], rp["choices"], rp["gran"])
        found = codetf.validate_results(detail["results"], before=dict(c11a.DRIVERS[rp["schedule"]]["files"]), after=detail["tree"])
        return (rp["kind"] not in {k for k, _ in found}), "\n".join(f"{k}: {d}" for k, d in found) or "report consistent under this schedule"
    if rp.get("sequence"):
        rec = seqspace.pair_job_cli(tuple(rp["pair"]))
        steps = {"batch": (rec["files"], rec["batch"]), "chain1": (rec["files"], rec["chain"][0]), "chain2": (rec["chain"][0]["tree"], rec["chain"][1])}
        before, lite = steps[rp["step"]]
        found = codetf.validate(lite["report"], before=before, after=lite["tree"], logs=lite["logs"])
        return (rp["kind"] not in {k for k, _ in found}), "\n".join(f"{k}: {d}" for k, d in found) or "report valid"
    job = corners("thorough")[rp["corner"]]
    obs = drive.run_inproc(job) if job.pre_hook else drive.run_cli(job)
    if obs.error:
        raise core.HarnessError(obs.error)
    found, _, _ = _corner_judge(rp["corner"], obs)
    return (rp["sig"] not in {s for s, _ in found}), "\n".join(f"{s}: {d}" for s, d in found) or "report valid"
