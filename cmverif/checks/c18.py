"""C18 - a codemod acts on what its own detector reports, and the result is clean.

Monitor over the shared program-space exploration, for the find-and-fix codemods that detect with a rule of their own
(the detector's answers are recorded by a tap on codemodder.semgrep.run during the codemod's own run and re-run):
  (1) the rule reports a location in P, P is not of a declined shape  =>  P is rewritten or listed as failed;
  (2) detecting again on run_K(P) reports nothing inside the lines run_K rewrote.
"""
from __future__ import annotations

import re

from .. import core, drive, progcheck

PROP = "C18"
_HUNK = re.compile(r"^@@ -\d+(?:,\d+)? \+(\d+)(?:,(\d+))? @@")

# context mutators that turn a plain trigger into one of the shapes codemods explicitly decline
# (conditionally bound / re-bound import names: DESIGN.md Appendix C)
DECLINING_MUTATORS = {"import:try"}


def new_side_lines(diff: str):
    """Line numbers (new file) of the '+' records of a unified diff."""
    out, cur = set(), None
    for rec in diff.split("\n"):
        m = _HUNK.match(rec)
        if m:
            cur = int(m.group(1))
            continue
        if cur is None or rec.startswith(("---", "+++")):
            continue
        if rec.startswith("+"):
            out.add(cur)
            cur += 1
        elif rec.startswith("-"):
            continue
        else:
            cur += 1
    return out


def monitor(p, r):
    if not r.flagged or r.flagged[0] is None:
        return  # not a rule-detected codemod (or the detector was not consulted)
    fl0 = r.flagged[0]
    changed = r.after[0] is not None and r.after[0] != r.before
    if fl0 and not changed and not r.failed[0]:
        if p.seed.kind == "trigger" and not (set(p.devs) & DECLINING_MUTATORS):
            yield ("flagged-but-untouched", f"the codemod's own rule reports {fl0[:3]} but the file was neither rewritten nor listed as failed")
    if changed and len(r.flagged) > 1 and r.flagged[1]:
        touched = set()
        for c in r.cs[0]:
            touched |= new_side_lines(c["diff"])
        inside = [loc for loc in r.flagged[1] if any(l in touched for l in range(loc[0], loc[2] + 1))]
        if inside:
            yield ("still-flagged-in-rewritten-code", f"after the run the rule still reports {inside[:3]} inside the lines the run rewrote {sorted(touched)[:8]}")


def schedule_judge(files, detail):
    failed = {f.split("/proj/", 1)[-1] for res in detail["results"] for f in res.get("failedFiles") or []}
    out = []
    for path, before in sorted(files.items()):
        after = detail["tree"].get(path)
        if not isinstance(before, bytes) or not isinstance(after, bytes) or path in failed:
            continue
        if b"verify=False" in before and b"verify=False" in after:
            out.append(("schedule|semgrep-detected|reported-call-not-rewritten", f"{path}: the rule reports its verify=False call(s), the file is not listed as failed, and a verify=False call is still there"))
        if b"verify=check" in before and b"verify=check" not in after:
            out.append(("schedule|semgrep-detected|unreported-call-rewritten", f"{path}: requests.get(..., verify=check) is not reported by the rule but was rewritten"))
    return out


def explore(tier, seed):
    coverage, violations = progcheck.run_monitor(
        PROP, tier, seed, monitor, select=lambda p: p.seed.origin == "pixee", confirm="inproc", sig_fn=progcheck.sig_by_context,
        describe="Oracle: detector locations recorded from the codemod's own semgrep call before and after the run.",
    )
    progs, recs, *_ = progcheck.explore_space(tier, seed)
    rule_detected = sorted({p.seed.codemod for p in progs if recs[p.pid].flagged and recs[p.pid].flagged[0] is not None})
    flagged = sum(1 for p in progs if recs[p.pid].flagged and recs[p.pid].flagged[0])
    # several workers: under every interleaving (<= 1 preemption, line granularity) of the per-file tasks of a rule-detected codemod,
    # every reported call is rewritten (or its file failed) and the look-alike call at the same position that the rule does NOT
    # report is left alone
    from ..core import Violation
    from . import c11a

    r = c11a.explore_cached("semgrep-detected", "line", 1)
    known_open = {k["signature"] for k in core.load_known() if k["property"] == PROP and k["status"] == "open"}
    for h, detail in sorted(r["details"].items()):
        for sig, what in schedule_judge(r["files"], detail):
            if sig in {v.signature for v in violations}:
                continue
            if sig not in known_open:
                drive.init_inproc()
                again = [dict(schedule_judge(r["files"], c11a.run_once("semgrep-detected", r["outcomes"][h], "line")[2])) for _ in range(2)]
                if not all(sig in a for a in again):
                    continue
            violations.append(Violation(PROP, sig, f"under schedule {r['outcomes'][h][:30]}: {what}", {"schedule": "semgrep-detected", "choices": r["outcomes"][h], "kind": sig}, 1))
    coverage["schedule_outcomes_judged"] = {"driver": "semgrep-detected", "executions": r["executions"], "distinct_outcomes": len(r["outcomes"])}
    coverage["rule_detected_codemods"] = rule_detected
    coverage["programs_flagged_by_their_detector"] = flagged
    assumptions = [
        "declined shapes (DESIGN.md Appendix C) are not judged by (1): negative / upstream-xfail seeds and variants whose import is wrapped in try/except",
        "the detector's answer is what codemodder.semgrep.run returned for the codemod's own rule during the run (harness tap), not a re-implementation of the rule",
        "batched execution is sound by sibling independence (C11e); every new candidate is re-executed alone through the CLI twice",
    ]
    return "model_checking", coverage, violations, assumptions


def replay(rp):
    from .. import batch, drive

    drive.init_inproc()
    if rp.get("schedule"):
        from . import c11a

        detail = c11a.run_once(rp["schedule"], rp["choices"], "line")[2]
        found = schedule_judge(dict(c11a.DRIVERS[rp["schedule"]]["files"]), detail)
        return (rp["kind"] not in {s for s, _ in found}), "\n".join(f"{s}: {d}" for s, d in found) or "every reported call rewritten, the unreported one left alone"
    p = batch.program_from_replay(rp)
    r = batch.run_alone_inproc(p, 2)
    found = list(monitor(p, r))
    text = [f"program {p.pid}", "--- before\n" + p.src.decode("utf-8", "replace"), "--- after\n" + (r.after[0] or b"").decode("utf-8", "replace"), f"detector before: {r.flagged[0]}  after: {r.flagged[1] if len(r.flagged) > 1 else None}"]
    text += [f"violation {k}: {d}" for k, d in found]
    return (rp.get("kind") not in {k for k, _ in found}), "\n".join(text)
