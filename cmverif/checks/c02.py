"""C02 - rewrites never introduce unbound names or drop bindings still in use.

Same exploration as C01 (shared, cached by tree hash), different monitor: unresolved(after) must be a subset of
unresolved(before), with the scope-aware oracle of oracles/scope.py.
"""
from __future__ import annotations

from .. import progcheck
from ..oracles import scope

PROP = "C02"


def monitor(p, r):
    if not p.seed.compiles:
        return
    after = r.after[0]
    if after is None or after == r.before:
        return
    ub = scope.unresolved(r.before)
    if ub is None:
        return  # open module (star import): not applicable
    ua = scope.unresolved(after)
    if ua is None:
        return  # does not compile any more: C01's violation, not C02's
    # a module-level use that precedes every binding of the name already resolves to nothing in the original (the property's
    # exception); `unresolved` does not model order, so those names are taken out here
    new = sorted(ua - ub - scope.used_before_bound(r.before))
    if new:
        yield ("unbound:" + ",".join(new[:3]), f"names unresolved after the rewrite but not before: {new}")


def explore(tier, seed):
    from . import c01seq

    sf = scope.selftest()
    coverage, violations = progcheck.run_monitor(PROP, tier, seed, monitor, describe="Oracle: unresolved(after) subset of unresolved(before) (symtable based).")
    seq_cov, seq_viol = c01seq.explore_sequences(PROP, tier, seed, c01seq.names_judge)
    coverage["sequences"] = seq_cov
    coverage["states"] += seq_cov["states"]
    coverage["transitions"] += seq_cov["transitions"]
    coverage["traces_validated_against_impl"] += seq_cov["invocations"]
    coverage["oracle_selftest"] = sf
    violations += seq_viol
    assumptions = [
        "name resolution follows CPython's symtable; order of binding and use inside a scope is not modelled (a name bound anywhere at module level counts as bound), except that a module-level use preceding every module-level binding of its name counts as already unresolved in the original",
        "modules with star imports and inputs that only pass the parser are not applicable (counted, not judged)",
        "batched execution is sound by sibling independence (C11e); every new candidate is re-executed alone through the CLI twice",
    ]
    return "model_checking", coverage, violations, assumptions


def replay(rp):
    if rp.get("sequence"):
        from . import c01seq

        return c01seq.replay(rp, c01seq.names_judge)
    return progcheck.replay_program(rp, monitor)
