"""C04 - --dry-run never touches the project and predicts the real run.

Explicit enumeration of configurations: manifest combinations (each kind absent / updatable / not updatable) x
codemod kind (detector-less, semgrep-detected, Sonar-driven, dependency-adding) x option vectors with at most b
non-default options.  Each configuration is executed twice by the real run(): with --dry-run on D and without on a
copy of D.  Oracle: recursive snapshot (bytes, mode, mtime_ns, symlink targets) of the target and of a sibling
directory is identical before/after the dry run; normalise(report_dry) == normalise(report_real).
"""
from __future__ import annotations

import itertools
import json

from .. import core, drive, manifests_space as ms
from ..core import Violation

PROP = "C04"

MANIFEST_DIMS = {
    "requirements.txt": [None, "requests>=2\nflask\n"],
    "setup.cfg": [None, ms.SETUP_CFG["multiline"], ms.SETUP_CFG["no-options"]],
    "pyproject.toml": [None, ms.PYPROJECT["pep621-multiline"], ms.PYPROJECT["poetry"], ms.PYPROJECT["no-project"], ms.PYPROJECT["project-no-deps"]],
    "setup.py": [None, ms.SETUP_PY["multiline-trailing"], ms.SETUP_PY["no-install-requires"]],
}

SONAR_SRC = b"import random\n\nvalue = random.random()\n"
SONAR_DOC = {
    "hotspots": [
        {"ruleKey": "python:S2245", "status": "TO_REVIEW", "component": "proj:app.py", "key": "AX1",
         "textRange": {"startLine": 3, "endLine": 3, "startOffset": 8, "endOffset": 23}}
    ]
}

CODEMODS = {
    "dep-detectorless": ("pixee:python/harden-pickle-load", ms.DEP_TRIGGERS["pixee:python/harden-pickle-load"][0], None),
    "dep-defusedxml": ("pixee:python/use-defusedxml", ms.DEP_TRIGGERS["pixee:python/use-defusedxml"][0], None),
    "detectorless": ("pixee:python/use-generator", b"def f(xs):\n    return sum([x for x in xs])\n", None),
    "semgrep-detected": ("pixee:python/requests-verify", b"import requests\n\nrequests.get('https://x', verify=False)\n", None),
    "dep-semgrep": ("pixee:python/url-sandbox", ms.DEP_TRIGGERS["pixee:python/url-sandbox"][0], None),
    "sonar": ("sonar:python/secure-random", SONAR_SRC, SONAR_DOC),
}

OPTIONS = {
    "verbose": ["--verbose"],
    "workers4": ["--max-workers", "4"],
    "include": ["--path-include", "*.py,**/*.py"],
    "exclude": ["--path-exclude", "nothing/**"],
    "logjson": ["--log-format", "json"],
    "project": ["--project-name", "demo"],
    "no-verbose": ["--no-verbose"],
}


# shapes of the source file (pseudo-options "shape:<name>"): the prediction must not depend on line endings, a BOM, a
# missing final newline, or on a sibling the codemod cannot parse
SHAPES = {
    "crlf": lambda b: b.replace(b"\n", b"\r\n"),
    "cr": lambda b: b.replace(b"\n", b"\r"),
    "mixed-eol": lambda b: b.replace(b"\n", b"\r\n", 1),
    "nofinal": lambda b: b.rstrip(b"\n"),
    "bom": lambda b: b"\xef\xbb\xbf" + b,
    "formfeed": lambda b: b + b"\x0c\nX = 1\n",
    "unparseable-sibling": None,
    "second-file": None,
    "symlink-to-project-file": None,
    "symlink-to-outside-file": None,
}


def manifest_combos():
    keys = list(MANIFEST_DIMS)
    for idx in itertools.product(*[range(len(MANIFEST_DIMS[k])) for k in keys]):
        yield tuple(idx)


def project(cm_key, combo):
    _, src, _ = CODEMODS[cm_key]
    files = {"app.py": src, "pkg/util.py": b"X = 1\n", "notes.txt": b"keep me\n"}
    for k, i in zip(MANIFEST_DIMS, combo):
        t = MANIFEST_DIMS[k][i]
        if t is not None:
            files[k] = t.encode()
    return files


def configs(tier):
    combos = list(manifest_combos())
    rep = [c for c in combos if sum(1 for i in c if i) <= 1] + [(1, 1, 1, 1), (1, 2, 3, 2), (0, 1, 2, 1), (1, 0, 1, 2), (1, 0, 4, 0), (1, 1, 4, 2)]
    out = []
    # every manifest combination with default options, for the detector-less dependency-adding codemod
    for c in combos:
        out.append(("dep-detectorless", c, ()))
    optsets1 = [(o,) for o in OPTIONS]
    optsets2 = [tuple(p) for p in itertools.combinations(OPTIONS, 2) if set(p) != {"verbose", "no-verbose"}]
    for c in rep:
        for o in optsets1:
            out.append(("dep-detectorless", c, o))
    for key in ("detectorless", "dep-defusedxml"):
        for c in rep[:6]:
            out.append((key, c, ()))
        for o in optsets1:
            out.append((key, (1, 0, 0, 0), o))
    for key in ("semgrep-detected", "dep-semgrep", "sonar"):
        for c in ((0, 0, 0, 0), (1, 0, 0, 0), (0, 1, 1, 1), (0, 0, 2, 0)):
            out.append((key, c, ()))
        out.append((key, (1, 0, 0, 0), ("workers4",)))
        out.append((key, (1, 0, 0, 0), ("verbose",)))
    for key in CODEMODS:
        for sh in SHAPES:
            if key == "sonar" and sh in ("second-file", "unparseable-sibling", "symlink-to-project-file", "symlink-to-outside-file"):
                continue  # the result file names app.py only
            out.append((key, (1, 0, 0, 0), (f"shape:{sh}",)))
    for key in CODEMODS:
        for c in ((1, 0, 0, 0), (0, 1, 0, 0), (0, 0, 1, 0), (0, 0, 0, 1), (0, 0, 0, 0)) if key.startswith("dep-") else ((1, 0, 0, 0),):
            out.append(("history", key, c, 1))
            if tier == "thorough":
                out.append(("history", key, c, 2))
    if tier == "thorough":
        for key in CODEMODS:
            for sh in SHAPES:
                if key == "sonar" and sh in ("second-file", "unparseable-sibling", "symlink-to-project-file", "symlink-to-outside-file"):
                    continue
                out += [(key, (0, 0, 0, 0), (f"shape:{sh}",)), (key, (1, 1, 1, 1), (f"shape:{sh}", "workers4"))]
        for c in combos:
            for o in optsets1:
                out.append(("dep-detectorless", c, o))
            out.append(("dep-defusedxml", c, ()))
        for c in rep:
            for o in optsets2:
                out.append(("dep-detectorless", c, o))
        for key in ("semgrep-detected", "dep-semgrep", "sonar"):
            for c in rep:
                out.append((key, c, ()))
            for o in optsets1 + optsets2[:8]:
                out.append((key, (1, 1, 1, 1), o))
    return list(dict.fromkeys(out))


def jobs_for(cfg):
    cm_key, combo, opts = cfg
    cm, _, doc = CODEMODS[cm_key]
    argv = ["{dir}", "--codemod-include", cm]
    results = {}
    if doc:
        argv += ["--sonar-hotspots-json", "{res:hotspots.json}"]
        results["hotspots.json"] = json.dumps(doc).encode()
    for o in opts:
        if not o.startswith("shape:"):
            argv += OPTIONS[o]
    files = project(cm_key, combo)
    for o in opts:
        if o.startswith("shape:"):
            name = o.split(":", 1)[1]
            if name == "unparseable-sibling":
                files["pkg/broken.py"] = files["app.py"] + b"def (:\n"
            elif name == "second-file":
                files["pkg/deep/again.py"] = files["app.py"]
            elif name == "symlink-to-project-file":
                files["pkg/alias.py"] = ("symlink", "../app.py")
            elif name == "symlink-to-outside-file":
                files["pkg/alias.py"] = ("symlink", "../../outside/sibling.py")
            else:
                files["app.py"] = SHAPES[name](files["app.py"])
    outside = {"sibling.py": CODEMODS[cm_key][1], "requirements.txt": b"requests\n"}
    dry = drive.Job(files=files, argv=argv + ["--dry-run"], results=results, outside=outside, snapshot_meta=True)
    real = drive.Job(files=files, argv=argv, results=results, outside=outside)
    return dry, real


def norm(rep):
    if rep is None:
        return None
    rep = json.loads(json.dumps(rep))
    rep.get("run", {}).pop("commandLine", None)
    return rep


def first_diff(a, b, path="$"):
    if type(a) != type(b):
        return path
    if isinstance(a, dict):
        for k in sorted(set(a) | set(b)):
            if k not in a or k not in b:
                return f"{path}.{k}"
            d = first_diff(a[k], b[k], f"{path}.{k}")
            if d:
                return d
        return None
    if isinstance(a, list):
        if len(a) != len(b):
            return f"{path}[len {len(a)} vs {len(b)}]"
        for i, (x, y) in enumerate(zip(a, b)):
            d = first_diff(x, y, f"{path}[{i}]")
            if d:
                return d
        return None
    return None if a == b else path


def judge(cfg, dry, real):
    out = []
    cm_key = cfg[0]
    if dry.exit != 0 or real.exit != 0:
        out.append((f"{cm_key}|exit", f"dry run exited {dry.exit}, real run exited {real.exit}: {(dry.stderr[-1] or real.stderr[-1])[-300:]}"))
        return out, False
    for rel in sorted(set(dry.before) | set(dry.final)):
        b, a = dry.before.get(rel), dry.final.get(rel)
        if b is None:
            out.append((f"{cm_key}|dry-run-created:{rel}", f"--dry-run created {rel}"))
        elif a is None:
            out.append((f"{cm_key}|dry-run-deleted:{rel}", f"--dry-run deleted {rel}"))
        elif a != b:
            out.append((f"{cm_key}|dry-run-modified:{rel}", f"--dry-run modified the bytes of {rel}"))
        elif dry.meta_before.get(rel) != dry.meta_after[-1].get(rel):
            out.append((f"{cm_key}|dry-run-touched:{rel}", f"--dry-run changed mode/mtime of {rel}: {dry.meta_before.get(rel)} -> {dry.meta_after[-1].get(rel)}"))
    if dry.outside_after != jobs_for(cfg)[0].outside:
        out.append((f"{cm_key}|dry-run-outside", "--dry-run changed a sibling directory"))
    d = first_diff(norm(dry.report), norm(real.report))
    if d:
        generic = d.split("[")[0] + ("[..]" + d.split("]", 1)[1] if "]" in d else "")
        out.append((f"{cm_key}|report-differs:{generic[:80]}", f"dry-run report differs from the real run's report at {d}"))
    nontrivial = real.final != real.before
    return out, nontrivial


def eval_history(cfg):
    """One process, one project path: a dry run (or two) followed by the real run - the dry run must still predict it, and the
    real run must do what it does in a fresh state."""
    _, cm_key, combo, n_dry = cfg
    dry_job, real_job = jobs_for((cm_key, combo, ()))
    seq = drive.run_inproc(drive.Job(files=real_job.files, argv=real_job.argv, argv_seq=[dry_job.argv] * n_dry + [real_job.argv], results=real_job.results))
    alone = drive.run_inproc(real_job)
    for o in (seq, alone):
        if o.error:
            raise core.HarnessError(o.error)
    out = []
    tag = f"history|{cm_key}"
    if any(e != 0 for e in seq.exits) or alone.exit != 0:
        return [(f"{tag}|exit", f"exits {seq.exits} / alone {alone.exit}")], False
    for k in range(n_dry):
        if seq.after[k] != seq.before:
            out.append((f"{tag}|dry-run-modified", f"dry run #{k + 1} modified the project"))
    d = first_diff(norm(seq.reports[0]), norm(seq.reports[-1]))
    if d:
        out.append((f"{tag}|dry-run-does-not-predict-the-following-real-run", f"report of the dry run and of the real run that follows it in the same process differ at {d}"))
    d = first_diff(norm(seq.reports[-1]), norm(alone.report))
    if d or seq.after[-1] != alone.final:
        out.append((f"{tag}|real-run-after-dry-run-differs-from-real-run-alone", f"the real run after {n_dry} dry run(s) differs from the same run in a fresh state at {d or 'the project tree'}"))
    return out, alone.final != alone.before


def eval_cfg(cfg):
    if cfg[0] == "history":
        return eval_history(cfg)
    dry_job, real_job = jobs_for(cfg)
    dry, real = drive.run_inproc(dry_job), drive.run_inproc(real_job)
    for o in (dry, real):
        if o.error:
            raise core.HarnessError(o.error)
    return judge(cfg, dry, real)


def eval_cfg_cli(cfg):
    if cfg[0] == "history":
        return eval_history(cfg)  # a history inside one process cannot go through the console script
    dry_job, real_job = jobs_for(cfg)
    dry, real = drive.run_cli(dry_job), drive.run_cli(real_job)
    for o in (dry, real):
        if o.error:
            raise core.HarnessError(o.error)
    return judge(cfg, dry, real)


def explore(tier, seed):
    cfgs = drive.seed_rotate(configs(tier), seed)
    res = drive.pmap("cmverif.checks.c04:eval_cfg", cfgs, chunksize=2)
    cands = {}
    nontrivial = 0
    manifests_changed = 0
    for cfg, (found, nt) in zip(cfgs, res):
        nontrivial += bool(nt)
        for sig, detail in found:
            c = cands.get(sig)
            key = (0, 0, cfg) if cfg[0] == "history" else (len(cfg[2]), sum(1 for i in cfg[1] if i), cfg)
            if c is None or key < c[0]:
                cands[sig] = (key, cfg, detail)
    known_open = {k["signature"] for k in core.load_known() if k["property"] == PROP and k["status"] == "open"}
    violations, divergence = [], []
    for sig, (key, cfg, detail) in sorted(cands.items()):
        if sig not in known_open:
            s1 = {s for s, _ in eval_cfg_cli(cfg)[0]}
            s2 = {s for s, _ in eval_cfg_cli(cfg)[0]}
            if sig not in s1 or sig not in s2:
                divergence.append(sig)
                continue
        rp_cfg = [cfg[0], cfg[1], list(cfg[2]), cfg[3]] if cfg[0] == "history" else [cfg[0], list(cfg[1]), list(cfg[2])]
        violations.append(Violation(PROP, sig, f"{cfg}: {detail}"[:600], {"cfg": rp_cfg, "sig": sig}, key[0] + key[1]))
    # conformance of the in-process driver: three fixed configurations through the console script
    conf = 0
    for cfg in configs("quick")[:3]:
        a, b = eval_cfg(cfg), eval_cfg_cli(cfg)
        if {s for s, _ in a[0]} != {s for s, _ in b[0]} or a[1] != b[1]:
            raise core.HarnessError(f"in-process and CLI drivers disagree on {cfg}: {a} vs {b}")
        conf += 1
    coverage = {
        "states": len({(c[0], c[1]) if c[0] != "history" else c for c in cfgs}) * 2,
        "transitions": 2 * len(cfgs),
        "traces_validated_against_impl": len(cfgs) + conf,
        "exhaustive": True,
        "samples": [{"codemod_kind": c[0], "manifests(req,cfg,pyproject,setup.py)": list(c[1]), "options": list(c[2])} for c in [x for x in cfgs if x[0] != "history"][:3]],
        "in_process_histories": sum(1 for c in cfgs if c[0] == "history"),
        "configurations": len(cfgs),
        "real_run_changed_something": nontrivial,
        "manifest_combinations": len(list(manifest_combos())),
        "option_alphabet": sorted(OPTIONS),
        "source_file_shapes": sorted(SHAPES),
        "max_non_default_options": 1 if tier == "quick" else 2,
        "codemod_kinds": {k: v[0] for k, v in CODEMODS.items()},
        "cli_conformance_replays": conf,
        "cli_divergence": divergence,
        "rule": "configuration = (codemod kind, manifest combination, option set); 2 transitions each (dry run on D, real run on a copy); non-trivial = the real run changed the project",
    }
    assumptions = [
        "the regex and XML pipelines' dry-run guards are exercised by C19 (direct pipeline drivers), not here",
        "mtime_ns/mode/size snapshot plus bytes decides 'touched'; atime is ignored",
        "the two reports may differ in run.elapsed, run.commandLine (the --dry-run flag itself) and scratch paths only",
    ]
    return "model_checking", coverage, violations, assumptions


def replay(rp):
    if rp["cfg"][0] == "history":
        found, _ = eval_history(("history", rp["cfg"][1], tuple(rp["cfg"][2]), rp["cfg"][3]))
        return (rp["sig"] not in {s for s, _ in found}), "\n".join(f"{s}: {d}" for s, d in found) or "the dry run predicted the real run that followed it"
    cfg = (rp["cfg"][0], tuple(rp["cfg"][1]), tuple(rp["cfg"][2]))
    found, _ = eval_cfg_cli(cfg)
    return (rp["sig"] not in {s for s, _ in found}), "\n".join(f"{s}: {d}" for s, d in found) or "dry run left the tree alone and predicted the real report"
