"""Structural input mutators (libcst): call layout, argument shapes, import spellings.

libcst is used only to *produce inputs*; whether a mutant is a valid input is decided by CPython in
progspace.programs_for (compile / ast.parse; ast.dump equality for the layout mutators).
"""
from __future__ import annotations

import libcst as cst
from libcst import matchers as m
from libcst.metadata import MetadataWrapper, ParentNodeProvider, ScopeProvider

from .progspace import Variant, _reg


def _parse(text):
    try:
        return cst.parse_module(text)
    except Exception:
        return None


def _mk(fn):
    def f(v: Variant):
        mod = _parse(v.text)
        if mod is None:
            return None
        try:
            new = fn(mod)
        except Exception:
            return None
        if new is None:
            return None
        code = new.code
        if code == v.text:
            return None
        return Variant(code, None, v.dline, v.dcol, False)

    return f


# --------------------------------------------------------------------------- call layout


class _Multiline(cst.CSTTransformer):
    def leave_Call(self, original_node, updated_node):
        if not updated_node.args:
            return updated_node
        nl = cst.ParenthesizableWhitespace if False else None  # noqa
        inner = cst.ParenthesizedWhitespace(
            first_line=cst.TrailingWhitespace(), indent=True, last_line=cst.SimpleWhitespace("    ")
        )
        last = cst.ParenthesizedWhitespace(first_line=cst.TrailingWhitespace(), indent=True, last_line=cst.SimpleWhitespace(""))
        args = []
        n = len(updated_node.args)
        for i, a in enumerate(updated_node.args):
            star_kw = a.star == "**" or a.star == "*"
            ws = inner if i < n - 1 else last
            args.append(a.with_changes(comma=cst.Comma(whitespace_after=ws), whitespace_after_arg=cst.SimpleWhitespace("")))
        return updated_node.with_changes(args=args, whitespace_before_args=inner)


class _Spaces(cst.CSTTransformer):
    def leave_Arg(self, original_node, updated_node):
        if updated_node.keyword is not None:
            return updated_node.with_changes(
                equal=cst.AssignEqual(whitespace_before=cst.SimpleWhitespace(" "), whitespace_after=cst.SimpleWhitespace(" "))
            )
        return updated_node

    def leave_Call(self, original_node, updated_node):
        if not updated_node.args:
            return updated_node
        args = list(updated_node.args)
        lastarg = args[-1]
        if isinstance(lastarg.comma, cst.MaybeSentinel) or lastarg.comma is cst.MaybeSentinel.DEFAULT:
            args[-1] = lastarg.with_changes(whitespace_after_arg=cst.SimpleWhitespace(" "))
        return updated_node.with_changes(args=args, whitespace_before_args=cst.SimpleWhitespace(" "))


class _Comment(cst.CSTTransformer):
    def leave_SimpleStatementLine(self, original_node, updated_node):
        tw = updated_node.trailing_whitespace
        if tw.comment is not None:
            return updated_node
        return updated_node.with_changes(
            trailing_whitespace=tw.with_changes(whitespace=cst.SimpleWhitespace("  "), comment=cst.Comment("# note: keep"))
        )


class _Semicolon(cst.CSTTransformer):
    def leave_SimpleStatementLine(self, original_node, updated_node):
        body = list(updated_node.body)
        if any(isinstance(b, (cst.Import, cst.ImportFrom)) for b in body):
            return updated_node
        body[-1] = body[-1].with_changes(semicolon=cst.Semicolon(whitespace_after=cst.SimpleWhitespace(" ")))
        body.append(cst.Pass())
        return updated_node.with_changes(body=body)


class _Parens(cst.CSTTransformer):
    def _wrap(self, value):
        if isinstance(value, cst.Call) and not value.lpar:
            return value.with_changes(lpar=[cst.LeftParen()], rpar=[cst.RightParen()])
        return value

    def leave_Assign(self, original_node, updated_node):
        return updated_node.with_changes(value=self._wrap(updated_node.value))

    def leave_Return(self, original_node, updated_node):
        if updated_node.value is None:
            return updated_node
        return updated_node.with_changes(value=self._wrap(updated_node.value))

    def leave_Expr(self, original_node, updated_node):
        return updated_node.with_changes(value=self._wrap(updated_node.value))


class _InListLiteral(cst.CSTTransformer):
    """x = call(...)  ->  x = [\n    call(...),\n]: the call starts on a continuation line of a multi-line simple statement."""

    def __init__(self):
        self.changed = False

    def _wrap(self, value):
        if not isinstance(value, cst.Call):
            return value
        self.changed = True
        nl = cst.ParenthesizedWhitespace(first_line=cst.TrailingWhitespace(), indent=True, last_line=cst.SimpleWhitespace("    "))
        end = cst.ParenthesizedWhitespace(first_line=cst.TrailingWhitespace(), indent=True, last_line=cst.SimpleWhitespace(""))
        return cst.List(
            elements=[cst.Element(value=value, comma=cst.Comma(whitespace_after=end))],
            lbracket=cst.LeftSquareBracket(whitespace_after=nl),
            rbracket=cst.RightSquareBracket(),
        )

    def leave_Assign(self, original_node, updated_node):
        return updated_node.with_changes(value=self._wrap(updated_node.value))

    def leave_Expr(self, original_node, updated_node):
        return updated_node.with_changes(value=self._wrap(updated_node.value))


class _ParenBreak(cst.CSTTransformer):
    """a == b  ->  (a ==\n    b): every comparison / boolean / binary operation gets its own parentheses and a line
    break after its first operator (legal only because of the parentheses)."""

    NL = cst.ParenthesizedWhitespace(first_line=cst.TrailingWhitespace(), indent=True, last_line=cst.SimpleWhitespace("        "))

    def __init__(self):
        self.changed = False

    def _wrap(self, node):
        self.changed = True
        return node.with_changes(lpar=[cst.LeftParen()], rpar=[cst.RightParen()])

    def leave_Comparison(self, original_node, updated_node):
        if updated_node.lpar:
            return updated_node
        first = updated_node.comparisons[0]
        op = first.operator
        if not hasattr(op, "whitespace_after"):
            return updated_node
        comps = [first.with_changes(operator=op.with_changes(whitespace_after=self.NL)), *updated_node.comparisons[1:]]
        return self._wrap(updated_node.with_changes(comparisons=comps))

    def leave_BooleanOperation(self, original_node, updated_node):
        if updated_node.lpar:
            return updated_node
        return self._wrap(updated_node.with_changes(operator=updated_node.operator.with_changes(whitespace_after=self.NL)))

    def leave_BinaryOperation(self, original_node, updated_node):
        if updated_node.lpar:
            return updated_node
        return self._wrap(updated_node.with_changes(operator=updated_node.operator.with_changes(whitespace_after=self.NL)))


class _ParenAll(cst.CSTTransformer):
    """Redundant parentheses around every comparison / boolean operation / unary not and around assignment values."""

    def __init__(self):
        self.changed = False

    def _wrap(self, node):
        if getattr(node, "lpar", None):
            return node
        self.changed = True
        return node.with_changes(lpar=[cst.LeftParen()], rpar=[cst.RightParen()])

    def leave_Comparison(self, original_node, updated_node):
        return self._wrap(updated_node)

    def leave_BooleanOperation(self, original_node, updated_node):
        return self._wrap(updated_node)

    def leave_UnaryOperation(self, original_node, updated_node):
        return self._wrap(updated_node)


# --------------------------------------------------------------------------- arguments


class _StarStar(cst.CSTTransformer):
    def leave_Call(self, original_node, updated_node):
        if not updated_node.args or any(a.star == "**" for a in updated_node.args):
            return updated_node
        args = list(updated_node.args)
        if args[-1].comma is cst.MaybeSentinel.DEFAULT:
            args[-1] = args[-1].with_changes(comma=cst.Comma(whitespace_after=cst.SimpleWhitespace(" ")))
        args.append(cst.Arg(value=cst.Name("_kw"), star="**"))
        return updated_node.with_changes(args=args)


class _ReorderKw(cst.CSTTransformer):
    def __init__(self):
        self.changed = False

    def leave_Call(self, original_node, updated_node):
        args = list(updated_node.args)
        kw_idx = [i for i, a in enumerate(args) if a.keyword is not None and not a.star]
        if len(kw_idx) < 2 or kw_idx != list(range(kw_idx[0], kw_idx[0] + len(kw_idx))):
            return updated_node
        kws = [args[i] for i in kw_idx]
        commas = [a.comma for a in kws]
        wsa = [a.whitespace_after_arg for a in kws]
        new = [a.with_changes(comma=c, whitespace_after_arg=w) for a, c, w in zip(reversed(kws), commas, wsa)]
        for i, a in zip(kw_idx, new):
            args[i] = a
        self.changed = True
        return updated_node.with_changes(args=args)


class _ExtraPositionalStar(cst.CSTTransformer):
    """f(a, k=1) -> f(a, *_rest, k=1)"""

    def leave_Call(self, original_node, updated_node):
        args = list(updated_node.args)
        if not args or any(a.star for a in args):
            return updated_node
        pos = [i for i, a in enumerate(args) if a.keyword is None]
        at = (pos[-1] + 1) if pos else 0
        star = cst.Arg(value=cst.Name("_rest"), star="*", comma=cst.Comma(whitespace_after=cst.SimpleWhitespace(" ")))
        if at == len(args):
            if args[-1].comma is cst.MaybeSentinel.DEFAULT:
                args[-1] = args[-1].with_changes(comma=cst.Comma(whitespace_after=cst.SimpleWhitespace(" ")))
            star = star.with_changes(comma=cst.MaybeSentinel.DEFAULT)
        args.insert(at, star)
        return updated_node.with_changes(args=args)


# --------------------------------------------------------------------------- imports


class _Replace(cst.CSTTransformer):
    def __init__(self, by_id):
        self.by_id = by_id

    def on_leave(self, original_node, updated_node):
        r = self.by_id.get(id(original_node))
        if r is not None:
            return r(updated_node) if callable(r) else r
        return updated_node


def _global_import_assignments(wrapper):
    scopes = set(wrapper.resolve(ScopeProvider).values())
    for sc in scopes:
        if sc is None:
            continue
        for a in sc.assignments:
            node = getattr(a, "node", None)
            if isinstance(node, (cst.Import, cst.ImportFrom)):
                yield sc, a, node


def _alias_for(node, name):
    if isinstance(node.names, cst.ImportStar):
        return None
    for al in node.names:
        bound = al.asname.name.value if al.asname and isinstance(al.asname.name, cst.Name) else None
        full = cst.Module([]).code_for_node(al.name)
        if bound is None:
            bound = full.split(".")[0] if isinstance(node, cst.Import) else full
        if bound == name:
            return al, full
    return None


def _import_alias(mod):
    """import m -> import m as m_al ; from m import f -> from m import f as f_al  (references renamed)."""
    w = MetadataWrapper(mod, unsafe_skip_copy=True)
    by_id = {}
    done = False
    for sc, a, node in _global_import_assignments(w):
        got = _alias_for(node, a.name)
        if not got:
            continue
        al, full = got
        if al.asname is not None or "." in full:
            continue
        if isinstance(node, cst.ImportFrom) and node.module is not None and cst.Module([]).code_for_node(node.module) == "__future__":
            continue
        new = a.name + "_al"
        refs = list(a.references)
        if not all(isinstance(r.node, cst.Name) for r in refs):
            continue
        for r in refs:
            by_id[id(r.node)] = cst.Name(new)
        by_id[id(al)] = (lambda new: (lambda upd: upd.with_changes(
            asname=cst.AsName(name=cst.Name(new), whitespace_before_as=cst.SimpleWhitespace(" "), whitespace_after_as=cst.SimpleWhitespace(" "))
        )))(new)
        done = True
    if not done:
        return None
    return w.module.visit(_Replace(by_id))


def _import_to_from(mod):
    """import m ; m.f(...)  ->  from m import f ; f(...)   (only when every use of m is an attribute access)."""
    w = MetadataWrapper(mod, unsafe_skip_copy=True)
    parents = w.resolve(ParentNodeProvider)
    by_id = {}
    done = False
    for sc, a, node in _global_import_assignments(w):
        if not isinstance(node, cst.Import) or len(node.names) != 1:
            continue
        al = node.names[0]
        full = cst.Module([]).code_for_node(al.name)
        if "." in full or al.asname is not None:
            continue
        refs = list(a.references)
        if not refs:
            continue
        attrs = []
        ok = True
        for r in refs:
            par = parents.get(r.node)
            if isinstance(r.node, cst.Name) and isinstance(par, cst.Attribute) and par.value is r.node:
                attrs.append((par, par.attr.value))
            else:
                ok = False
                break
        if not ok:
            continue
        names = sorted({n for _, n in attrs})
        # do not capture names that are bound elsewhere in the module
        if any(n in sc for n in names):
            continue
        for par, n in attrs:
            by_id[id(par)] = (lambda n: (lambda upd: cst.Name(n, lpar=upd.lpar, rpar=upd.rpar)))(n)
        by_id[id(node)] = cst.ImportFrom(module=cst.Name(full), names=[cst.ImportAlias(name=cst.Name(n)) for n in names])
        done = True
    if not done:
        return None
    return w.module.visit(_Replace(by_id))


def _from_to_import(mod):
    """from m import f ; f(...)  ->  import m ; m.f(...)"""
    w = MetadataWrapper(mod, unsafe_skip_copy=True)
    by_id = {}
    done = False
    for sc, a, node in _global_import_assignments(w):
        if not isinstance(node, cst.ImportFrom) or node.relative or node.module is None:
            continue
        if isinstance(node.names, cst.ImportStar) or len(node.names) != 1:
            continue
        al = node.names[0]
        modname = cst.Module([]).code_for_node(node.module)
        if modname == "__future__" or al.asname is not None or not isinstance(al.name, cst.Name):
            continue
        top = modname.split(".")[0]
        if top in sc and not any(isinstance(getattr(x, "node", None), (cst.Import,)) for x in sc[top]):
            continue
        refs = list(a.references)
        if not refs or not all(isinstance(r.node, cst.Name) for r in refs):
            continue
        for r in refs:
            by_id[id(r.node)] = (lambda modname, n: (lambda upd: cst.Attribute(value=cst.parse_expression(modname), attr=cst.Name(n), lpar=upd.lpar, rpar=upd.rpar)))(modname, al.name.value)
        by_id[id(node)] = cst.Import(names=[cst.ImportAlias(name=cst.parse_expression(modname))])
        done = True
    if not done:
        return None
    return w.module.visit(_Replace(by_id))


class _TryImports(cst.CSTTransformer):
    def __init__(self):
        self.depth = 0
        self.changed = False

    def visit_IndentedBlock(self, node):
        self.depth += 1

    def leave_IndentedBlock(self, original_node, updated_node):
        self.depth -= 1
        return updated_node

    def leave_SimpleStatementLine(self, original_node, updated_node):
        if self.depth:
            return updated_node
        if not all(isinstance(b, (cst.Import, cst.ImportFrom)) for b in updated_node.body):
            return updated_node
        for b in updated_node.body:
            if isinstance(b, cst.ImportFrom) and (isinstance(b.names, cst.ImportStar) or (b.module is not None and cst.Module([]).code_for_node(b.module) == "__future__")):
                return updated_node
        self.changed = True
        inner = updated_node.with_changes(leading_lines=[])
        return cst.Try(
            body=cst.IndentedBlock(body=[inner]),
            handlers=[cst.ExceptHandler(type=cst.Name("ImportError"), body=cst.IndentedBlock(body=[cst.SimpleStatementLine(body=[cst.Raise()])]))],
            leading_lines=updated_node.leading_lines,
        )


def _visit(cls):
    def fn(mod):
        t = cls()
        new = mod.visit(t)
        if hasattr(t, "changed") and not t.changed:
            return None
        return new

    return fn


_reg("layout:multiline", "layout", 0, _mk(_visit(_Multiline)), True)
_reg("layout:spaces", "layout", 0, _mk(_visit(_Spaces)), True)
_reg("layout:comment", "layout", 0, _mk(_visit(_Comment)), True)
_reg("layout:semicolon", "layout", 0, _mk(_visit(_Semicolon)), False)
_reg("layout:parens", "layout", 0, _mk(_visit(_Parens)), True)
_reg("layout:paren-break", "layout", 0, _mk(_visit(_ParenBreak)), True)
_reg("layout:in-list-literal", "layout", 0, _mk(_visit(_InListLiteral)), False)
_reg("layout:paren-exprs", "layout", 0, _mk(_visit(_ParenAll)), True)
_reg("args:starstar", "args", 0, _mk(_visit(_StarStar)), False)
_reg("args:reorder-kw", "args", 0, _mk(_visit(_ReorderKw)), False)
_reg("args:star-rest", "args", 0, _mk(_visit(_ExtraPositionalStar)), False)
_reg("import:alias", "import", 0, _mk(_import_alias), False)
_reg("import:from", "import", 0, _mk(_import_to_from), False)
_reg("import:module", "import", 0, _mk(_from_to_import), False)
_reg("import:try", "import", 0, _mk(_visit(_TryImports)), False)


# --------------------------------------------------------------------------- import statement layout (several names)


def _import_names(style, where):
    """Every import statement gets extra, unused names (before and after its own, or after only) and is laid out inline,
    parenthesised one name per line (with comments), or with backslash continuations: partial removal of names from a
    multi-name import is what import-removing codemods have to survive."""

    class T(cst.CSTTransformer):
        def __init__(self):
            self.changed = False
            self.n = 0

        def leave_SimpleStatementLine(self, original_node, updated_node):
            if len(updated_node.body) != 1 or not isinstance(updated_node.body[0], (cst.Import, cst.ImportFrom)):
                return updated_node
            st = updated_node.body[0]
            code = cst.Module([]).code_for_node
            if isinstance(st, cst.ImportFrom):
                if isinstance(st.names, cst.ImportStar):
                    return updated_node
                mod = "." * len(st.relative) + (code(st.module) if st.module is not None else "")
                if mod == "__future__":
                    return updated_node
                head = f"from {mod} import "
            else:
                if style.startswith("paren"):
                    return updated_node  # `import (a, b)` is not Python
                head = "import "
            names = [code(al.with_changes(comma=cst.MaybeSentinel.DEFAULT)).strip() for al in st.names]
            self.n += 1
            first, last = f"_zz{self.n}a", f"_zz{self.n}z"
            allnames = ([first] if where == "both" else []) + names + [last]
            if style == "inline":
                text = head + ", ".join(allnames)
            elif style == "paren":
                text = head + "(\n" + "".join(f"    {n},  # {i}\n" for i, n in enumerate(allnames)) + ")"
            elif style == "paren-nocomma":
                text = head + "(\n" + ",\n".join(f"    {n}" for n in allnames) + "\n)"
            else:
                text = head + ", \\\n    ".join(allnames)
            new = cst.parse_statement(text + "\n")
            self.changed = True
            return new.with_changes(leading_lines=updated_node.leading_lines, trailing_whitespace=updated_node.trailing_whitespace)

    return T


_reg("import:names-inline", "importnames", 0, _mk(_visit(_import_names("inline", "both"))), False)
_reg("import:names-paren", "importnames", 0, _mk(_visit(_import_names("paren", "both"))), False)
_reg("import:names-paren-last", "importnames", 0, _mk(_visit(_import_names("paren-nocomma", "last"))), False)
_reg("import:names-backslash", "importnames", 0, _mk(_visit(_import_names("backslash", "both"))), False)
_reg("import:names-backslash-last", "importnames", 0, _mk(_visit(_import_names("backslash", "last"))), False)


# --------------------------------------------------------------------------- decoys nested inside arguments


class _NestedDecoys(cst.CSTTransformer):
    """Every dict literal passed as a keyword argument gets one more entry, under a neutral key, whose value is a dict with the
    SAME keys (values: marker lists): an edit of the call's own entries must not reach look-alike entries one level down.
    options={"verify_signature": False} -> options={"verify_signature": False, "zz_decoy": {"verify_signature": ["zz_keep"]}}"""

    def __init__(self):
        self.changed = False

    def leave_Arg(self, original_node, updated_node):
        v = updated_node.value
        if updated_node.keyword is None or not isinstance(v, cst.Dict) or not v.elements:
            return updated_node
        keys = [e.key for e in v.elements if isinstance(e, cst.DictElement) and isinstance(e.key, cst.SimpleString)]
        if not keys:
            return updated_node
        inner = ", ".join(f"{cst.Module([]).code_for_node(k)}: [\"zz_keep\"]" for k in keys)
        body = cst.Module([]).code_for_node(v.with_changes(lbrace=cst.LeftCurlyBrace(), rbrace=cst.RightCurlyBrace()))
        inside = body.strip()[1:-1].strip().rstrip(",")
        new = cst.parse_expression("{" + inside + ", \"zz_decoy\": {" + inner + "}}")
        self.changed = True
        return updated_node.with_changes(value=new)


_reg("args:nested-decoys", "args", 0, _mk(_visit(_NestedDecoys)), False)


class _JoinImports(cst.CSTTransformer):
    """Consecutive import statements are written on ONE physical line, separated by ';' (import a; from b import c)."""

    def __init__(self):
        self.changed = False

    def _join(self, body):
        out, marked, keep = [], set(), []
        for st in body:
            ok = isinstance(st, cst.SimpleStatementLine) and all(isinstance(b, (cst.Import, cst.ImportFrom)) for b in st.body) and not any(
                isinstance(b, cst.ImportFrom) and b.module is not None and cst.Module([]).code_for_node(b.module) == "__future__" for b in st.body)
            prev = out[-1] if out else None
            if ok and prev is not None and id(prev) in marked and not st.leading_lines:
                merged = prev.with_changes(body=[b.with_changes(semicolon=cst.MaybeSentinel.DEFAULT) for b in list(prev.body) + list(st.body)], trailing_whitespace=st.trailing_whitespace)
                marked.add(id(merged))
                keep.append(merged)
                out[-1] = merged
                self.changed = True
                continue
            if ok:
                marked.add(id(st))
            out.append(st)
        return out

    def leave_Module(self, original_node, updated_node):
        return updated_node.with_changes(body=self._join(updated_node.body))

    def leave_IndentedBlock(self, original_node, updated_node):
        return updated_node.with_changes(body=self._join(updated_node.body))


_reg("import:joined-semicolon", "importnames", 0, _mk(_visit(_JoinImports)), True)


class _CommentAbove(cst.CSTTransformer):
    """A comment line (and a blank line) directly above every simple statement, inside its block: what a transformer that
    removes or replaces the statement has to do something with."""

    def __init__(self):
        self.changed = False

    def leave_SimpleStatementLine(self, original_node, updated_node):
        if any(isinstance(b, (cst.Import, cst.ImportFrom)) for b in updated_node.body):
            return updated_node
        self.changed = True
        extra = [cst.EmptyLine(indent=False), cst.EmptyLine(comment=cst.Comment("# note about the next statement"))]
        return updated_node.with_changes(leading_lines=[*updated_node.leading_lines, *extra])


_reg("layout:comment-above", "layout", 0, _mk(_visit(_CommentAbove)), True)
