"""Shared exploration of the program space and the generic monitor runner used by C01/C02/C03/C07/C16/C18."""
from __future__ import annotations

import time

from . import batch, cache, core, drive, progspace
from .core import Violation

# pairs of dimension groups crossed in the thorough tier (<= 2 deviations)
PAIR_GROUPS = {
    frozenset(p)
    for p in [
        ("nest", "eol"), ("nest", "indent"), ("nest", "import"), ("nest", "layout"), ("nest", "prelude"),
        ("eol", "layout"), ("eol", "mult"), ("eol", "prelude"), ("eol", "postlude"), ("eol", "import"),
        ("import", "layout"), ("import", "args"), ("mult", "nest"), ("mult", "import"), ("indent", "layout"),
        ("args", "layout"), ("postlude", "nest"), ("args", "nest"), ("indent", "eol"),
        ("importnames", "nest"), ("importnames", "eol"), ("importnames", "import"), ("importnames", "mult"),
    ]
}


def _space_shard(arg):
    seed_ids, max_dev, use_pairs = arg
    progspace.register_structural()
    by_id = {s.id: s for s in progspace.load_seeds()}
    stats = progspace.SpaceStats()
    progs = progspace.programs_for([by_id[i] for i in seed_ids], max_dev, pair_groups=PAIR_GROUPS if use_pairs else None, stats=stats)
    return progs, stats


def space(tier):
    """quick: triggers with <= 1 deviation, negatives / upstream-xfail seeds canonical only;
    thorough: triggers with <= 2 deviations (group pairs of PAIR_GROUPS), the others with <= 1."""
    progspace.register_structural()
    seeds = progspace.load_seeds()
    trig = [s.id for s in seeds if s.kind == "trigger"]
    other = [s.id for s in seeds if s.kind != "trigger"]
    hi, lo = (1, 0) if tier == "quick" else (2, 1)
    shards = [(trig[i : i + 8], hi, True) for i in range(0, len(trig), 8)] + [(other[i : i + 20], lo, True) for i in range(0, len(other), 20)]
    total = progspace.SpaceStats()
    progs = []
    for ps, st in drive.pmap("cmverif.progcheck:_space_shard", shards):
        progs += ps
        total.seeds += st.seeds
        total.programs += st.programs
        total.rejected += st.rejected
        total.inapplicable += st.inapplicable
        total.duplicates += st.duplicates
        for k, v in st.by_dev.items():
            total.by_dev[k] = total.by_dev.get(k, 0) + v
    return progs, total


def explore_space(tier, seed=0):
    """-> (programs, {pid: Rec}, stats, cache_hit, wall).  Two runs of the target codemod per program."""

    def compute():
        t0 = time.time()
        progs, stats = space(tier)
        recs = batch.run_programs(drive.seed_rotate(progs, seed), runs=2)
        missing = [p.pid for p in progs if p.pid not in recs]
        if missing:
            raise core.HarnessError(f"exploration lost {len(missing)} programs, e.g. {missing[:3]}")
        return {"progs": progs, "recs": recs, "stats": stats, "wall": time.time() - t0}

    val, hit = cache.cached(f"progspace-{tier}", compute)
    return val["progs"], val["recs"], val["stats"], hit, val["wall"]


def sample_of(p, r, note=None):
    s = {
        "program": p.pid,
        "codemod": p.seed.codemod,
        "deviations": list(p.devs),
        "before": p.src.decode("utf-8", "replace")[:400],
        "after": (r.after[0] or b"").decode("utf-8", "replace")[:400],
    }
    if note:
        s["note"] = note
    return s


def sig_by_seed(p, kind, canon_kinds, single_fail=None):
    return f"{p.seed.codemod}|{p.seed.id}|{kind}"


def sig_by_context(p, kind, canon_kinds, single_fail=None):
    """For properties whose defect site is the I/O / diff / matching layer rather than a codemod: when the canonical
    rendering of the seed is fine, the failing context dimension identifies the defect.  A program with several
    deviations is attributed to the one deviation that already fails alone (for any seed), if there is one."""
    if p.devs and kind not in canon_kinds:
        alone = [d for d in p.devs if single_fail and d in single_fail.get(kind, ())]
        if alone:
            return f"context:{sorted(alone)[0]}|{kind}"
        return f"context:{'+'.join(p.devs)}|{kind}"
    return f"{p.seed.codemod}|{p.seed.id}|{kind}"


def run_monitor(prop, tier, seed, monitor, *, runs_needed=2, select=None, describe="", sig_fn=sig_by_seed, confirm="cli"):
    """monitor(program, rec) -> iterable of (kind, detail).  Returns the pieces for core.finish()."""
    progs, recs, stats, hit, wall = explore_space(tier, seed)
    if select:
        progs = [p for p in progs if select(p)]
    cands = {}
    n_changed = n_eval = 0
    nontrivial = set()
    samples = []
    per_codemod = {}
    canon = {}
    for p in progs:
        if not p.devs:
            canon[p.seed.id] = {k for k, _ in monitor(p, recs[p.pid])}
    single_fail = {}
    for p in progs:
        if len(p.devs) == 1:
            for k, _ in monitor(p, recs[p.pid]):
                if k not in canon.get(p.seed.id, set()):
                    single_fail.setdefault(k, set()).add(p.devs[0])
    for p in progs:
        r = recs[p.pid]
        n_eval += 1
        pc = per_codemod.setdefault(p.seed.codemod, [0, 0])
        pc[0] += 1
        if r.after[0] is not None and r.after[0] != r.before:
            n_changed += 1
            pc[1] += 1
            nontrivial.add(core.sha12(r.before) + p.seed.codemod)
            if len(samples) < 2 and p.devs:
                samples.append(sample_of(p, r))
        for kind, detail in monitor(p, r):
            sig = sig_fn(p, kind, canon.get(p.seed.id, set()), single_fail)
            c = cands.get(sig)
            if c is None or (p.ndev, len(p.src)) < (c[0].ndev, len(c[0].src)):
                cands[sig] = (p, kind, detail)
    # confirm-alone rule: only signatures that are not already listed are re-executed through the CLI
    known_open = {k["signature"] for k in core.load_known() if k["property"] == prop and k["status"] == "open"}
    to_confirm = [(sig, c) for sig, c in sorted(cands.items()) if sig not in known_open]
    # "cli": twice through the console script; "inproc": twice alone in fresh worker runs (needed when the monitor reads
    # observations only the in-process taps provide, e.g. the detector's answers)
    confirmed = drive.pmap("cmverif.batch:confirm_alone_job" if confirm == "cli" else "cmverif.batch:confirm_alone_inproc_job", [(c[0], runs_needed, ()) for _, c in to_confirm])
    violations = []
    batch_divergence = []
    for (sig, (p, kind, detail)), (r1, r2) in zip(to_confirm, confirmed):
        k1 = {k for k, _ in monitor(p, r1)}
        k2 = {k for k, _ in monitor(p, r2)}
        if kind in k1 and kind in k2:
            violations.append(
                Violation(prop, sig, f"{p.pid}: {detail}"[:600], batch.program_replay(p, {"kind": kind, "runs": runs_needed}), p.ndev)
            )
        else:
            batch_divergence.append({"signature": sig, "program": p.pid, "alone": sorted(k1 | k2)})
    for sig, (p, kind, detail) in sorted(cands.items()):
        if sig in known_open:
            violations.append(Violation(prop, sig, f"{p.pid}: {detail}"[:600], batch.program_replay(p, {"kind": kind, "runs": runs_needed}), p.ndev))
    coverage = {
        "states": len({core.sha12(recs[p.pid].before) + p.seed.codemod for p in progs}) + len(nontrivial),
        "transitions": n_eval * 2,
        "traces_validated_against_impl": n_eval + 2 * len(to_confirm),
        "exhaustive": True,
        "samples": samples or [sample_of(progs[0], recs[progs[0].pid])],
        "programs": n_eval,
        "programs_changed_by_codemod": n_changed,
        "distinct_nontrivial": len(nontrivial),
        "rule": "a program is (seed, context vector) with at most %d non-canonical dimensions; state = distinct file content x codemod, "
        "transition = one application of the target codemod to one file (2 per program: run and re-run); non-trivial = the codemod changed the file. %s"
        % (1 if tier == "quick" else 2, describe),
        "space": {
            "seeds": stats.seeds,
            "programs": stats.programs,
            "mutants_rejected": stats.rejected,
            "inapplicable": stats.inapplicable,
            "duplicate_renderings": stats.duplicates,
            "by_deviation_count": {str(k): v for k, v in sorted(stats.by_dev.items())},
            "mutators": sorted(progspace.MUTATORS),
        },
        "codemods_covered": len(per_codemod),
        "codemods_with_a_changed_program": sum(1 for v in per_codemod.values() if v[1]),
        "exploration_cache_hit": hit,
        "exploration_wall_s": round(wall, 1),
        "candidates": len(cands),
        "confirmed_alone_via_cli": len(to_confirm) - len(batch_divergence),
        "batch_divergence": batch_divergence,
    }
    return coverage, violations


def replay_program(rp, monitor):
    p = batch.program_from_replay(rp)
    r, obs = batch.run_alone_cli(p, rp.get("runs", 2))
    found = list(monitor(p, r))
    kinds = {k for k, _ in found}
    text = [f"program {p.pid} (codemod {p.seed.codemod}), exit={r.exits}"]
    text.append("--- before\n" + p.src.decode("utf-8", "replace"))
    text.append("--- after\n" + (r.after[0] or b"").decode("utf-8", "replace"))
    for k, d in found:
        text.append(f"violation {k}: {d}")
    return (rp.get("kind") not in kinds), "\n".join(text)
