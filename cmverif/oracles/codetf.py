"""CodeTF validator (oracle for C15): vendored schema + the structural invariants the property states."""
from __future__ import annotations

import json

from .. import core
from . import udiff

_SCHEMA = None


def _validator():
    global _SCHEMA
    if _SCHEMA is None:
        import jsonschema

        schema = json.loads((core.VERIF / "spaces" / "codetf.schema.json").read_text())
        _SCHEMA = jsonschema.Draft202012Validator(schema)
    return _SCHEMA


def executed_sequence(logs):
    """(ids logged by 'running codemod', ids listed in the setup section)"""
    ran = [l[len("running codemod "):] for l in logs if l.startswith("running codemod ")]
    listed, on = [], False
    for l in logs:
        if l == "running:":
            on = True
            continue
        if on:
            if l.startswith("  - "):
                listed.append(l[4:])
            else:
                on = False
    return ran, listed


def _nlines(data):
    if not isinstance(data, bytes):
        return 0
    return data.count(b"\n") + (0 if data.endswith(b"\n") or not data else 1)


def validate(report, *, before: dict, after: dict, logs: list, sast_origins=("sonar", "semgrep", "defectdojo", "codeql")):
    """-> list of (kind, detail)."""
    out = []
    if report is None:
        return [("no-report", "--output given, exit 0, but no report file")]
    if "__unreadable__" in report:
        return [("not-json", f"report is not valid JSON: {report['__unreadable__']}")]
    errs = sorted(_validator().iter_errors(report), key=lambda e: list(e.absolute_path))
    for e in errs[:3]:
        loc = "/".join(str(p) if not isinstance(p, int) else "*" for p in e.absolute_path)
        out.append((f"schema:{loc}:{e.validator}", f"schema violation at {'/'.join(map(str, e.absolute_path))}: {e.message[:200]}"))
    if errs:
        return out
    ran, listed = executed_sequence(logs)
    expected = ran if ran else listed
    got = [r["codemod"] for r in report["results"]]
    if got != expected:
        kind = "results-vs-executed"
        if sorted(got) == sorted(expected):
            kind += ":order"
        elif len(got) != len(set(got)):
            kind += ":duplicate"
        elif set(expected) - set(got):
            kind += ":missing"
        else:
            kind += ":extra"
        out.append((kind, f"report results {got[:8]} but executed {expected[:8]}"))
    return out + validate_results(report["results"], before=before, after=after, sast_origins=sast_origins)


def validate_results(results, *, before: dict, after: dict, sast_origins=("sonar", "semgrep", "defectdojo", "codeql")):
    """The per-result structural invariants (usable on a result list without the report envelope)."""
    out = []
    current = {}  # path -> text as predicted by folding the reported diffs in order (covers several codemods and dry runs)
    for r in results:
        cm = r["codemod"]
        for key in ("summary", "description"):
            if not str(r.get(key, "")).strip():
                out.append((f"empty-{key}:{cm}", f"{cm}: the result's {key} is empty"))
        if "references" not in r:
            out.append(("no-references", f"{cm}: result carries no references list"))
        changed = []
        for cs in r["changeset"]:
            path = cs["path"]
            changed.append(path)
            if path.startswith("/") or ".." in path.split("/"):
                out.append(("changeset-path-not-relative", f"{cm}: changeset path {path!r}"))
                continue
            if path not in after or not isinstance(after[path], bytes):
                out.append(("changeset-path-missing", f"{cm}: changeset names {path!r} which is not a file of the project"))
                continue
            bound = max(_nlines(before.get(path)), _nlines(after.get(path)), 1)
            try:
                prev = current.get(path)
                if prev is None:
                    prev = (before.get(path) or b"").decode("utf-8")
                nxt = None
                for model in ("patch", "split"):
                    try:
                        nxt = udiff.apply(cs["diff"], prev, model)
                        break
                    except udiff.DiffError:
                        continue
                if nxt is not None:
                    current[path] = nxt
                    bound = max(bound, _nlines(prev.encode()), _nlines(nxt.encode()))
            except UnicodeDecodeError:
                pass
            for ch in cs["changes"]:
                if not (1 <= ch["lineNumber"] <= bound):
                    out.append(("line-number-outside-file", f"{cm}: change at line {ch['lineNumber']} in {path} which has {bound} lines"))
        failed = [f.split("/proj/", 1)[-1] if "/proj/" in f else f for f in r.get("failedFiles", []) or []]
        both = sorted(set(failed) & set(changed))
        if both:
            out.append(("failed-and-changed", f"{cm}: files both failed and changed: {both}"))
        # several changesets of one codemod for one file are legitimate (a source edit and a dependency written into a
        # setup.py that is also a source file): the property does not forbid them and C03 checks that they compose
        if cm.split(":")[0] in sast_origins:
            if not (r.get("detectionTool") or {}).get("name"):
                out.append(("sast-without-detection-tool", f"{cm}: no detectionTool.name"))
            for cs in r["changeset"]:
                if cs["path"].endswith(".py"):
                    for ch in cs["changes"]:
                        for f in ch.get("findings") or []:
                            if not f.get("id") or not (f.get("rule") or {}).get("id"):
                                out.append(("sast-finding-without-ids", f"{cm}: finding without id / rule.id"))
            for u in r.get("unfixedFindings") or []:
                if not u.get("id") or not (u.get("rule") or {}).get("id"):
                    out.append(("sast-unfixed-without-ids", f"{cm}: unfixed finding without id / rule.id"))
    return out
