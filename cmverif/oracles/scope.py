"""Scope-aware unresolved-name analysis from the stdlib `symtable` (oracle for C02).

unresolved(src) = names that are read in some scope, are not local / cell / free there, are not bound anywhere
at module level (assignment, import, def, class, `global` target in a function) and are not builtins.
A module with `from x import *` is "open": returns None (analysis not applicable).
"""
from __future__ import annotations

import ast
import builtins
import symtable
import warnings

_BUILTINS = set(dir(builtins)) | {
    "__file__", "__name__", "__doc__", "__package__", "__spec__", "__loader__", "__builtins__",
    "__annotations__", "__path__", "__class__", "__debug__", "__qualname__", "__module__", "__dict__",
}


def _tables(t):
    yield t
    for c in t.get_children():
        yield from _tables(c)


def unresolved(src: bytes | str):
    """-> frozenset of names, or None when not applicable (does not compile / star import)."""
    try:
        with warnings.catch_warnings():
            warnings.simplefilter("ignore")
            if isinstance(src, bytes):
                # decode exactly as CPython would
                import io
                import tokenize

                enc, _ = tokenize.detect_encoding(io.BytesIO(src).readline)
                text = src.decode(enc)
                if text.startswith("\ufeff"):
                    text = text[1:]
            else:
                text = src
            tree = ast.parse(text)
            top = symtable.symtable(text, "<prog>", "exec")
    except (SyntaxError, ValueError, UnicodeDecodeError, LookupError, RecursionError):
        return None
    for node in ast.walk(tree):
        if isinstance(node, ast.ImportFrom) and any(a.name == "*" for a in node.names):
            return None
    module_bound = set()
    for s in top.get_symbols():
        if s.is_assigned() or s.is_imported() or s.is_namespace() or s.is_parameter():
            module_bound.add(s.get_name())
    for t in _tables(top):
        if t is top:
            continue
        for s in t.get_symbols():
            if s.is_declared_global() and (s.is_assigned() or s.is_imported() or s.is_namespace()):
                module_bound.add(s.get_name())
    out = set()
    for t in _tables(top):
        for s in t.get_symbols():
            if not s.is_referenced():
                continue
            name = s.get_name()
            if t is top:
                is_glob = True
            else:
                is_glob = s.is_global()
                if t.get_type() == "class" and not (s.is_local() or s.is_free() or s.is_global()):
                    is_glob = True
            if not is_glob:
                continue
            if name in module_bound or name in _BUILTINS:
                continue
            out.add(name)
    return frozenset(out)


def used_before_bound(src: bytes | str):
    """Names that module-level code loads BEFORE their first module-level binding (import, assignment, def, class ...), in
    statement order: at that use the name resolves to nothing when the module runs, although `unresolved` (which does not model
    order) counts it as bound.  Code inside function / lambda bodies runs later and is not looked at.  -> frozenset (empty when the
    source does not parse)."""
    try:
        with warnings.catch_warnings():
            warnings.simplefilter("ignore")
            if isinstance(src, bytes):
                import io
                import tokenize

                enc, _ = tokenize.detect_encoding(io.BytesIO(src).readline)
                src = src.decode(enc).lstrip("\ufeff")
            tree = ast.parse(src)
    except (SyntaxError, ValueError, UnicodeDecodeError, LookupError, RecursionError):
        return frozenset()
    bound, early = set(), set()

    def loads(node):
        """Name loads evaluated when the statement runs (not the bodies of nested functions, lambdas, classes' methods)."""
        stack = [node]
        while stack:
            n = stack.pop()
            if isinstance(n, (ast.FunctionDef, ast.AsyncFunctionDef)):
                stack += list(n.decorator_list) + [d for d in n.args.defaults + n.args.kw_defaults if d is not None]
                continue
            if isinstance(n, ast.Lambda):
                continue
            if isinstance(n, ast.Name) and isinstance(n.ctx, ast.Load):
                yield n.id
            stack += list(ast.iter_child_nodes(n))

    def binds(st):
        if isinstance(st, (ast.Import, ast.ImportFrom)):
            for a in st.names:
                yield (a.asname or a.name).split(".")[0]
        elif isinstance(st, (ast.FunctionDef, ast.AsyncFunctionDef, ast.ClassDef)):
            yield st.name
        else:
            for n in ast.walk(st):
                if isinstance(n, ast.Name) and isinstance(n.ctx, (ast.Store, ast.Del)):
                    yield n.id

    def run(body):
        for st in body:
            if isinstance(st, (ast.If, ast.Try, ast.With, ast.AsyncWith, ast.For, ast.AsyncFor, ast.While)):
                for field in ("test", "iter", "items"):
                    v = getattr(st, field, None)
                    for x in (v if isinstance(v, list) else [v] if v is not None else []):
                        for name in loads(x):
                            if name not in bound:
                                early.add(name)
                for n in ([st.target] if hasattr(st, "target") else []) + [i.optional_vars for i in getattr(st, "items", []) if i.optional_vars is not None]:
                    bound.update(b for b in binds(ast.Expr(n)) )
                for field in ("body", "orelse", "finalbody"):
                    run(getattr(st, field, []) or [])
                for h in getattr(st, "handlers", []):
                    if h.name:
                        bound.add(h.name)
                    run(h.body)
                continue
            for name in loads(st):
                if name not in bound:
                    early.add(name)
            bound.update(binds(st))

    run(tree.body)
    return frozenset(n for n in early if n in bound and n not in _BUILTINS)


_TABLE = [
    ("x = 1\nprint(x)\n", set()),
    ("print(y)\n", {"y"}),
    ("import os\nos.getcwd()\n", set()),
    ("import os.path\nos.path.join('a')\n", set()),
    ("import os.path as p\np.join('a')\nos\n", {"os"}),
    ("from a import b as c\nc()\nb\n", {"b"}),
    ("def f():\n    return z\n", {"z"}),
    ("def f():\n    z = 1\n    return z\n", set()),
    ("def f(a):\n    def g():\n        return a\n    return g\n", set()),
    ("def f():\n    global q\n    q = 1\nprint(q)\n", set()),
    ("class C:\n    x = 1\n    y = x\n", set()),
    ("class C:\n    y = x\n", {"x"}),
    ("class C:\n    x = 1\n    def m(self):\n        return x\n", {"x"}),
    ("[i for i in range(3)]\n", set()),
    ("[i for i in range(3)]\nprint(i)\n", {"i"}),
    ("try:\n    pass\nexcept Exception as e:\n    print(e)\n", set()),
    ("with open(__file__) as fh:\n    fh.read()\n", set()),
    ("for k in []:\n    pass\nprint(k)\n", set()),
    ("import m\ndel m\n", set()),
    ("lambda a: a + b\n", {"b"}),
    ("def f():\n    import os\n    return os\nos\n", {"os"}),
    ("def f():\n    import os\n    return os\n", set()),
    ("if (n := 3) > 2:\n    print(n)\n", set()),
    ("def f():\n    if (n := g()) > 2:\n        return n\n", {"g"}),
    ("x: int = 3\n", set()),
    ("def f(a: T) -> U:\n    pass\n", {"T", "U"}),
    ("from __future__ import annotations\nimport typing\ndef f(a: typing.Any): pass\n", set()),
    ("async def f():\n    await g()\n", {"g"}),
    ("@dec\ndef f(): pass\n", {"dec"}),
    ("a.b = 1\n", {"a"}),
    ("a[0] = 1\n", {"a"}),
    ("a += 1\n", set()),  # augmented assignment counts as a module-level binding (conservative)
    ("def f():\n    nonlocal_ = 1\n    def g():\n        nonlocal nonlocal_\n        nonlocal_ = 2\n    return g\n", set()),
    ("match v:\n    case [p, q]:\n        print(p, q)\n", {"v"}),
    ("print(len, NameError, __name__)\n", set()),
    ("class A:\n    def m(self):\n        return super().m()\n", set()),
    ("e = 1\ntry:\n    pass\nexcept E:\n    pass\n", {"E"}),
    ("x = not y in z\n", {"y", "z"}),
    ("from os import *\nfoo()\n", None),
    ("def (:\n", None),
]


def selftest():
    bad = []
    for src, exp in _TABLE:
        got = unresolved(src)
        if (None if exp is None else frozenset(exp)) != got:
            bad.append((src, exp, got))
    if bad:
        raise AssertionError(f"scope oracle self-test failed: {bad[:3]}")
    # bytes path: BOM + coding cookie
    assert unresolved(b"\xef\xbb\xbfx = 1\nprint(x, y)\n") == frozenset({"y"})
    assert unresolved("# -*- coding: latin-1 -*-\nx = '\xe9'\nprint(x)\n".encode("latin-1")) == frozenset()
    assert used_before_bound("random.random()\nimport random\nrandom.random()\n") == frozenset({"random"})
    assert used_before_bound("import random\nrandom.random()\ndef f():\n    return later\nlater = 1\n") == frozenset()
    assert used_before_bound("if x:\n    pass\nx = 1\nprint(y)\n") == frozenset({"x"})
    return f"{len(_TABLE)} table rows + 2 encodings + 3 order rows"
