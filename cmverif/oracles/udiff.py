"""Strict unified-diff applier (oracle for C03, C19).

A diff is read the way patch(1) reads it: records are separated by "\\n" only; the first character of a
record is its tag.  Context and '-' records must match the original exactly at the stated position.
The only tolerance is the one the property grants: presence/absence of one final newline.
"""
from __future__ import annotations

import difflib
import itertools
import re
import subprocess
import tempfile
from pathlib import Path

_HUNK = re.compile(r"^@@ -(\d+)(?:,(\d+))? \+(\d+)(?:,(\d+))? @@")


class DiffError(Exception):
    pass


def _records(text: str):
    if text == "":
        return [], False
    recs = text.split("\n")
    final_nl = text.endswith("\n")
    if final_nl:
        recs.pop()
    return recs, final_nl


def apply(diff: str, before: str, model: str = "patch") -> str:
    """Apply `diff` to `before`; raises DiffError when it does not apply exactly.

    model "patch": records are LF-terminated lines (what patch(1) sees).
    model "split": records are before.split("\\n") - a text ending in LF has a last, empty, unterminated record - and
    the result is "\\n".join(records).  A consumer that splits and joins on LF applies diffs produced from
    text.split("\\n") line lists (the manifest writers) exactly under this model.

    Byte-level reading of an unterminated last record: when the diff text does not end with "\n" and its last
    record has an empty body, that record stands for zero bytes.  At the end of the original it matches "end of
    file" (context / removed) or adds nothing (added).  This is exactly what the record denotes as bytes, and is part
    of the final-newline tolerance the property grants.
    """
    old, old_nl = _records(before)
    if model == "split":
        old = before.split("\n")
    d, d_nl = _records(diff)
    phantom = len(d) - 1 if (model == "patch" and d and not d_nl and d[-1][1:] == "" and d[-1][:1] in (" ", "+", "-", "")) else -1
    i = 0
    # headers
    while i < len(d) and not d[i].startswith("@@"):
        if not (d[i].startswith("---") or d[i].startswith("+++") or d[i].startswith("diff ") or d[i].startswith("index ") or d[i] == ""):
            raise DiffError(f"unexpected record before first hunk: {d[i]!r}")
        i += 1
    if i >= len(d):
        raise DiffError("no hunk in diff")
    out = []
    pos = 0  # index into old (0-based) of the next unconsumed record
    ends_with_diff_record = False
    while i < len(d):
        m = _HUNK.match(d[i])
        if not m:
            raise DiffError(f"expected hunk header, got {d[i]!r}")
        a = int(m.group(1))
        b = 1 if m.group(2) is None else int(m.group(2))
        dn = 1 if m.group(4) is None else int(m.group(4))
        start = a - 1 if b > 0 else a  # "-0,0" / "-k,0" address the line *after* which to insert
        if start < pos:
            raise DiffError("hunks overlap or are out of order")
        out += old[pos:start]
        pos = start
        i += 1
        seen_old = seen_new = 0
        while i < len(d) and (seen_old < b or seen_new < dn):
            rec = d[i]
            if rec.startswith("\\"):
                i += 1
                continue
            tag, body = (rec[0], rec[1:]) if rec else (" ", "")
            if i == phantom and pos >= len(old):
                # zero bytes at end of file
                if tag in (" ", "-"):
                    seen_old += 1
                if tag in (" ", "+"):
                    seen_new += 1
                i += 1
                continue
            if tag == " ":
                if pos >= len(old) or old[pos] != body:
                    raise DiffError(f"context mismatch at original line {pos + 1}: diff has {body!r}, file has {old[pos] if pos < len(old) else None!r}")
                out.append(body)
                pos += 1
                seen_old += 1
                seen_new += 1
            elif tag == "-":
                if pos >= len(old) or old[pos] != body:
                    raise DiffError(f"removed line mismatch at original line {pos + 1}: diff has {body!r}, file has {old[pos] if pos < len(old) else None!r}")
                pos += 1
                seen_old += 1
            elif tag == "+":
                out.append(body)
                seen_new += 1
            else:
                raise DiffError(f"bad record tag {rec!r}")
            i += 1
        if seen_old != b or seen_new != dn:
            raise DiffError(f"hunk at -{a} is short: {seen_old}/{b} old, {seen_new}/{dn} new records")
        while i < len(d) and d[i].startswith("\\"):
            i += 1
    out += old[pos:]
    if model == "split":
        return "\n".join(out)
    return "\n".join(out) + ("\n" if out else "")


def equal_mod_final_newline(x: str, y: str) -> bool:
    """Equal up to the presence of one final newline."""
    return x == y or x + "\n" == y or x == y + "\n"


def fold(diffs: list[str], before: str, model: str = "patch") -> str:
    cur = before
    for d in diffs:
        cur = apply(d, cur, model)
    return cur


def reproduces(diffs: list[str], before: str, after: str):
    """-> (ok, detail).  ok when folding the diffs over `before` gives `after` (mod one final newline) under the
    patch(1) reading or under the split/join-on-LF reading."""
    errs = []
    for model in ("patch", "split"):
        try:
            got = fold(diffs, before, model)
        except DiffError as e:
            errs.append(("diff-does-not-apply", f"[{model} model] {e}"))
            continue
        if equal_mod_final_newline(got, after):
            return True, None
        n = next((i for i, (x, y) in enumerate(zip(got, after)) if x != y), min(len(got), len(after)))
        errs.append(("diff-result-differs", f"[{model} model] first difference at char {n}: {got[max(0, n - 20):n + 20]!r} vs {after[max(0, n - 20):n + 20]!r}"))
    return False, errs[0]


# --------------------------------------------------------------------------- self-test


def _mk_diff(a: str, b: str) -> str:
    lines = list(difflib.unified_diff(a.split("\n") if False else _keep(a), _keep(b)))
    if not lines:
        return ""
    return "".join([l if l.endswith("\n") else l + "\n" for l in lines[:-1]] + [lines[-1]])


def _keep(s):
    # records with their "\n" terminators, as patch sees them
    parts = s.split("\n")
    out = [p + "\n" for p in parts[:-1]]
    if parts[-1] != "":
        out.append(parts[-1])
    return out


def selftest():
    alphabet = ["a", "b", ""]
    texts = []
    for n in range(0, 4):
        for combo in itertools.product(alphabet, repeat=n):
            body = "\n".join(combo)
            for fin in ("\n", ""):
                if n == 0 and fin == "":
                    texts.append("")
                    continue
                texts.append(body + fin)
    texts = sorted(set(texts))
    n = 0
    for x in texts:
        for y in texts:
            if x == y:
                continue
            d = _mk_diff(x, y)
            if not d:
                continue
            got = apply(d, x)
            if not equal_mod_final_newline(got, y):
                raise AssertionError(f"udiff self-test: {x!r} -> {y!r}: got {got!r} with diff {d!r}")
            n += 1
    # negative: a diff must not apply to a different original
    try:
        apply(_mk_diff("a\nb\n", "a\nc\n"), "a\nx\n")
        raise AssertionError("udiff self-test: mismatching context accepted")
    except DiffError:
        pass
    # cross-check against patch(1) on terminator-complete cases
    m = 0
    if Path("/usr/bin/patch").exists():
        with tempfile.TemporaryDirectory() as td:
            for x, y in itertools.islice(((x, y) for x in texts for y in texts if x != y and x.endswith("\n") and y.endswith("\n")), 0, None, 7):
                d = _mk_diff(x, y)
                f = Path(td) / "f"
                f.write_text(x)
                p = subprocess.run(["/usr/bin/patch", "-s", "--no-backup-if-mismatch", str(f)], input=d.encode(), capture_output=True)
                if p.returncode != 0 or f.read_text() != apply(d, x):
                    raise AssertionError(f"udiff vs patch(1) disagree on {x!r}->{y!r}")
                m += 1
    return f"{n} pairs round-trip, {m} cross-checked with patch(1)"
