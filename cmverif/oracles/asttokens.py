"""Token multisets and call-argument sequences from the stdlib ast (oracle for C16)."""
from __future__ import annotations

import ast
import warnings
from collections import Counter


def _parse(data):
    with warnings.catch_warnings():
        warnings.simplefilter("ignore")
        return ast.parse(data)


def tokens(data: bytes) -> Counter:
    """Multiset of identifiers, attribute names, keyword names, constants and imported names."""
    out = Counter()
    for n in ast.walk(_parse(data)):
        if isinstance(n, ast.Name):
            out[("name", n.id)] += 1
        elif isinstance(n, ast.Attribute):
            out[("attr", n.attr)] += 1
        elif isinstance(n, ast.keyword):
            out[("kw", n.arg)] += 1
        elif isinstance(n, ast.Constant):
            out[("const", repr(n.value))] += 1
        elif isinstance(n, ast.Import):
            for a in n.names:
                out[("import", a.name)] += 1
                if a.asname:
                    out[("asname", a.asname)] += 1
        elif isinstance(n, ast.ImportFrom):
            for a in n.names:
                out[("from", f"{n.module}.{a.name}")] += 1
                if a.asname:
                    out[("asname", a.asname)] += 1
        elif isinstance(n, (ast.FunctionDef, ast.AsyncFunctionDef, ast.ClassDef)):
            out[("def", n.name)] += 1
        elif isinstance(n, ast.arg):
            out[("param", n.arg)] += 1
    return out


def calls(data: bytes):
    """Per call, in source order: (callee text, [(keyword | '*' | '**' | None, dump of the value)])."""
    out = []
    tree = _parse(data)
    nodes = [n for n in ast.walk(tree) if isinstance(n, ast.Call)]
    nodes.sort(key=lambda n: (n.lineno, n.col_offset))
    for n in nodes:
        args = []
        for a in n.args:
            if isinstance(a, ast.Starred):
                args.append(("*", ast.dump(a.value)))
            else:
                args.append((None, ast.dump(a)))
        for k in n.keywords:
            args.append((k.arg if k.arg is not None else "**", ast.dump(k.value)))
        out.append((ast.unparse(n.func), args))
    return out


def is_subsequence(small, big):
    it = iter(big)
    return all(x in it for x in small)
