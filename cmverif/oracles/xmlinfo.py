"""XML information set as an event stream (oracle for C19), from xml.parsers.expat.

events(data) -> list of tuples, insignificant whitespace normalised as the property allows:
  ("start", name, ((attr, value), ...sorted)), ("end", name), ("text", content), ("comment", content),
  ("pi", target, data), ("doctype", name, system_id, public_id)
Adjacent character data (plain or CDATA) is merged, stripped at both ends and dropped when empty.
"""
from __future__ import annotations

import xml.parsers.expat as expat


class NotWellFormed(Exception):
    pass


def events(data: bytes):
    out = []
    p = expat.ParserCreate()
    p.buffer_text = False

    def text(s):
        if out and out[-1][0] == "_text":
            out[-1] = ("_text", out[-1][1] + s)
        else:
            out.append(("_text", s))

    p.StartElementHandler = lambda name, attrs: out.append(("start", name, tuple(sorted(attrs.items()))))
    p.EndElementHandler = lambda name: out.append(("end", name))
    p.CharacterDataHandler = text
    p.CommentHandler = lambda s: out.append(("comment", s))
    p.ProcessingInstructionHandler = lambda t, d: out.append(("pi", t, d.strip()))
    p.StartDoctypeDeclHandler = lambda name, sysid, pubid, internal: out.append(("doctype", name, sysid, pubid))
    try:
        p.Parse(data, True)
    except expat.ExpatError as e:
        raise NotWellFormed(str(e))
    norm = []
    for ev in out:
        if ev[0] == "_text":
            t = ev[1].strip()
            if t:
                norm.append(("text", t))
        else:
            norm.append(ev)
    # text split by a comment / PI boundary stays split; that is fine for comparison because both sides are built alike
    return norm


def selftest():
    a = events(b'<?xml version="1.0"?>\n<a x="1" y="2">\n  t &amp; u<![CDATA[ <c> ]]><!-- k --><?pi  d ?><b/></a>')
    assert a == [("start", "a", (("x", "1"), ("y", "2"))), ("text", "t & u <c>"), ("comment", " k "), ("pi", "pi", "d"), ("start", "b", ()), ("end", "b"), ("end", "a")], a
    b = events(b"<a y='2' x='1'>t &amp; u &lt;c&gt;<!-- k --><?pi d?><b></b>\n</a>\n")
    assert a == b, (a, b)
    assert events(b'<!DOCTYPE a SYSTEM "a.dtd"><a/>')[0] == ("doctype", "a", "a.dtd", None)
    try:
        events(b"<a><b></a>")
        raise AssertionError("accepted ill-formed input")
    except NotWellFormed:
        pass
    assert events(b"<a><![CDATA[x&lt;y]]></a>") != events(b"<a><![CDATA[x<y]]></a>")
    return "5 assertions"
