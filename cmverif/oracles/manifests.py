"""Independent readers for the four dependency manifests (oracle for C14): stdlib + packaging only.

read(kind, data) -> (ok, Counter of canonical requirement names, error text)
"""
from __future__ import annotations

import ast
import configparser
import re
import tomllib
from collections import Counter

from packaging.requirements import InvalidRequirement, Requirement
from packaging.utils import canonicalize_name


def _decode(data: bytes) -> str:
    if data.startswith(b"\xff\xfe") or data.startswith(b"\xfe\xff"):
        return data.decode("utf-16")
    return data.decode("utf-8-sig")


def _req_name(spec: str):
    spec = spec.strip()
    if not spec:
        return None
    return canonicalize_name(Requirement(spec).name)


def read_requirements(data: bytes):
    try:
        text = _decode(data)
    except UnicodeDecodeError as e:
        return False, Counter(), f"cannot decode: {e}"
    names = Counter()
    logical, cur = [], ""
    for raw in text.splitlines():
        if raw.rstrip().endswith("\\"):
            cur += raw.rstrip()[:-1] + " "
            continue
        logical.append(cur + raw)
        cur = ""
    if cur:
        logical.append(cur)
    for line in logical:
        line = line.strip()
        if not line or line.startswith("#") or line.startswith("-"):
            continue
        line = re.split(r"\s+#", line)[0]
        line = re.split(r"\s+--", line)[0]
        try:
            n = _req_name(line)
        except InvalidRequirement as e:
            return False, names, f"line {line!r} is not a requirement: {e}"
        if n:
            names[n] += 1
    return True, names, None


def read_setup_cfg(data: bytes):
    try:
        text = _decode(data)
        cp = configparser.ConfigParser()
        cp.read_string(text)
    except (configparser.Error, UnicodeDecodeError) as e:
        return False, Counter(), f"configparser: {e}"
    names = Counter()
    if cp.has_section("options") and cp.has_option("options", "install_requires"):
        raw = cp.get("options", "install_requires")
        for piece in re.split(r"[\n;]", raw):
            piece = piece.strip()
            if not piece or piece.startswith("#"):
                continue
            try:
                names[_req_name(piece)] += 1
            except InvalidRequirement:
                # the codemodder writer treats a single-line value as a comma separated list
                try:
                    for sub in re.split(r",\s+", piece):
                        if sub.strip():
                            names[_req_name(sub)] += 1
                except InvalidRequirement as e:
                    return False, names, f"install_requires entry {piece!r}: {e}"
    return True, names, None


def read_pyproject(data: bytes):
    try:
        doc = tomllib.loads(_decode(data))
    except (tomllib.TOMLDecodeError, UnicodeDecodeError) as e:
        return False, Counter(), f"toml: {e}"
    names = Counter()
    try:
        for spec in (doc.get("project") or {}).get("dependencies") or []:
            names[_req_name(spec)] += 1
    except (InvalidRequirement, TypeError) as e:
        return False, names, f"project.dependencies: {e}"
    for k in ((doc.get("tool") or {}).get("poetry") or {}).get("dependencies") or {}:
        if k.lower() != "python":
            names[canonicalize_name(k)] += 1
    return True, names, None


def read_setup_py(data: bytes):
    try:
        tree = ast.parse(data)
    except (SyntaxError, ValueError) as e:
        return False, Counter(), f"python: {e}"
    assigns = {}
    for st in tree.body:
        if isinstance(st, ast.Assign) and len(st.targets) == 1 and isinstance(st.targets[0], ast.Name):
            assigns[st.targets[0].id] = st.value
    names = Counter()
    for node in ast.walk(tree):
        if isinstance(node, ast.Call) and (getattr(node.func, "id", None) == "setup" or getattr(node.func, "attr", None) == "setup"):
            for kw in node.keywords:
                if kw.arg == "install_requires":
                    val = kw.value
                    if isinstance(val, ast.Name):
                        val = assigns.get(val.id, val)
                    if isinstance(val, (ast.List, ast.Tuple)):
                        for el in val.elts:
                            if isinstance(el, ast.Constant) and isinstance(el.value, str):
                                try:
                                    names[_req_name(el.value)] += 1
                                except InvalidRequirement as e:
                                    return False, names, f"install_requires element {el.value!r}: {e}"
    return True, names, None


READERS = {"requirements.txt": read_requirements, "setup.cfg": read_setup_cfg, "pyproject.toml": read_pyproject, "setup.py": read_setup_py}


def read(kind, data: bytes):
    return READERS[kind](data)


def selftest():
    ok, n, _ = read_requirements(b"# c\n\nrequests==2.31.0\nFlask>=2  # web\n-r base.txt\n-e .\nidna==3.4 \\\n    --hash=sha256:abc\npkg @ https://x/y.tar.gz\nuvicorn[standard]>=0.2; python_version > '3.8'\n")
    assert ok and n == Counter({"requests": 1, "flask": 1, "idna": 1, "pkg": 1, "uvicorn": 1}), n
    assert not read_requirements(b"requests    fickling>=0.1.3\n")[0]
    assert read_requirements(b"\xef\xbb\xbfFlask_WTF\n")[1] == Counter({"flask-wtf": 1})
    ok, n, _ = read_setup_cfg(b"[options]\ninstall_requires =\n    requests>=2,<3\n    # c\n    Flask\n")
    assert ok and n == Counter({"requests": 1, "flask": 1}), n
    ok, n, _ = read_setup_cfg(b"[options]\ninstall_requires = requests>=2, flask\n")
    assert ok and n == Counter({"requests": 1, "flask": 1}), n
    assert not read_setup_cfg(b"[options\ninstall_requires=")[0]
    ok, n, _ = read_pyproject(b'[project]\ndependencies = ["requests>=2", "Flask"]\n[tool.poetry.dependencies]\npython = "^3.10"\nfickling = "*"\n')
    assert ok and n == Counter({"requests": 1, "flask": 1, "fickling": 1}), n
    assert not read_pyproject(b"[project\n")[0]
    ok, n, _ = read_setup_py(b'from setuptools import setup\nR = ["a"]\nsetup(name="x", install_requires=["requests>=2", "flask"])\n')
    assert ok and n == Counter({"requests": 1, "flask": 1}), n
    ok, n, _ = read_setup_py(b'import setuptools as st\nR = ["a", "b"]\nst.setup(install_requires=R)\n')
    assert ok and n == Counter({"a": 1, "b": 1}), n
    assert not read_setup_py(b"setup(")[0]
    return "4 readers, 12 assertions"
