#!/bin/bash
# usage: regress_seeded.sh [check ...]  - rebuild a worktree from every stored seeded patch whose catching check is one of the given
# (cheap) checks, run that check against it and append "<name> <check> exit=<rc>" to seeded/REGRESSION.txt (expected: exit=1)
cheap=" ${*:-C04 C05 C06 C08 C10 C12 C14 C17 C19 C20} "
out=/verif/seeded/REGRESSION.txt
echo "# $(date -u +%FT%TZ) verif $(git -C /verif rev-parse --short HEAD) repo $(git -C /repo rev-parse --short HEAD)" >> $out
for d in /verif/seeded/*/; do
  n=$(basename $d)
  chk=$(/venv/bin/python - "$d/meta.json" "$cheap" <<'PY'
import json,sys
m=json.load(open(sys.argv[1])); cheap=sys.argv[2].split()
now=(m.get('session3') or {}).get('now_caught_by') or [c for c,v in (m.get('checks') or {}).items() if v.get('exit')==1]
print(next((c for c in now if c in cheap), ''))
PY
)
  [ -z "$chk" ] && continue
  wt=$(/verif/tools/wt_from_seeded.sh $n 2>/dev/null) || { echo "$n $chk patch-does-not-apply" >> $out; continue; }
  nice -n 10 /verif/tools/against.sh $wt $chk > /dev/shm/logs/regress-$n.log 2>&1; rc=$?
  echo "$n $chk exit=$rc $(grep -A1 '^VIOLATION' /dev/shm/logs/regress-$n.log | grep -v KNOWN | sed -n 2p | cut -c1-120)" >> $out
  git -C /repo worktree remove --force $wt
done
