#!/bin/bash
# usage: rebaseline.sh <seeded-name>  - apply seeded/<name>/patch.diff in a scratch worktree, run the pinned baseline against the
# worktree's own src (PYTHONPATH), record the verdict in seeded/<name>/baseline_recheck.txt, remove the worktree
n="$1"; wt=/tmp/wt/re-$n
git -C /repo worktree add --detach "$wt" HEAD -q || exit 2
cp /repo/src/codemodder/_version.py "$wt/src/codemodder/"
if git -C "$wt" apply /verif/seeded/$n/patch.diff; then
  /venv/bin/python /verif/tools/baseline.py "$wt" > /dev/shm/logs/rebase-$n.log 2>&1; rc=$?
  echo "repo_head=$(git -C /repo rev-parse --short HEAD) exit=$rc $(tail -1 /dev/shm/logs/rebase-$n.log)" > /verif/seeded/$n/baseline_recheck.txt
  grep "NOT PASSING" /dev/shm/logs/rebase-$n.log >> /verif/seeded/$n/baseline_recheck.txt
else
  echo "patch does not apply to $(git -C /repo rev-parse --short HEAD)" > /verif/seeded/$n/baseline_recheck.txt
fi
git -C /repo worktree remove --force "$wt"
