#!/bin/bash
# usage: wt_from_seeded.sh <seeded-name>  -> creates /tmp/wt/s-<name> (current /repo HEAD + the seeded patch) and prints its path
n="$1"; wt=/tmp/wt/s-$n
git -C /repo worktree remove --force "$wt" 2>/dev/null
git -C /repo worktree add --detach "$wt" HEAD -q || exit 2
cp /repo/src/codemodder/_version.py "$wt/src/codemodder/"
git -C "$wt" apply /verif/seeded/$n/patch.diff || { echo "patch does not apply" >&2; exit 3; }
echo "$wt"
