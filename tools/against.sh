#!/bin/bash
# usage: against.sh <repo-worktree> <Cxx> [tier]   - run a check against another checkout without touching /verif/evidence
wt="$1"; prop="$2"; tier="${3:-quick}"
export CMVERIF_REPO="$wt" CMVERIF_EVIDENCE_DIR="/dev/shm/cmverif-mutant-evidence" CMVERIF_REPLAY_DIR="/dev/shm/cmverif-mutant-replays"
cd /verif && exec /venv/bin/python -m cmverif check "$prop" --tier "$tier"
