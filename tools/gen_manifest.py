#!/usr/bin/env python3
"""Regenerate /verif/MANIFEST.json from the table below (single source of truth), and validate it."""
import json
import sys
from pathlib import Path

VERIF = Path(__file__).resolve().parent.parent
PY = "/venv/bin/python"

MC = "model_checking"
# property -> (category, technique, text, note, design_ref)
CHECKS = {
    "C17": (
        MC,
        "explicit-state enumeration of selection configurations against a reference model",
        "Every include/exclude list up to the stated length over a 13-token alphabet, in both eligibility modes, "
        "on the real registry under all 24 entry-point orders and on two synthetic registries, is pushed through the real "
        "match_codemods and compared with a reference selection; a set of end-to-end runs compares the executed "
        "sequence (log) and the report with the same reference.",
        "Reference model = DESIGN.md Appendix E; weakest reading for default-excluded ids under a user exclude list.",
        "3 C17",
    ),
}

NOT_BUILT = "check not built yet in this session (planned, see DESIGN.md section 3)"


def main():
    props = [json.loads(l)["id"] for l in (VERIF / "properties.jsonl").read_text().splitlines() if l.strip()]
    checks, na = [], []
    for p in props:
        if p in CHECKS and (VERIF / "cmverif" / "checks" / f"{p.lower()}.py").exists():
            cat, tech, text, note, ref = CHECKS[p]
            checks.append(
                {
                    "property_id": p,
                    "quick_cmd": f"{PY} -m cmverif check {p} --tier quick",
                    "thorough_cmd": f"{PY} -m cmverif check {p} --tier thorough",
                    "evidence_file": f"/verif/evidence/{p}.json",
                    "replay_cmd_template": f"{PY} -m cmverif replay {{path}}",
                    "engine": "cmverif",
                    "level_claimed": {"category": cat, "text": text, "design_ref": f"DESIGN.md {ref}"},
                    "level_note": note,
                    "technique": tech,
                }
            )
        else:
            na.append({"property_id": p, "reason": NOT_BUILT})
    m = {
        "version": 1,
        "setup_cmd": f"{PY} -m cmverif selftest",
        "hooks": {
            "guard": "CODEMODDER_VERIF",
            "enable": "no hooks are compiled into /repo: all seams (fault wrappers, scheduler gate, permutation seams, "
            "log capture) are installed by the harness process at run time; checks import /repo/src directly",
            "baseline_off_cmd": "cd /repo && /venv/bin/python -m pytest -ra -q -p no:cacheprovider --timeout=900 --continue-on-collection-errors",
            "source_commits": [],
            "add_only": True,
        },
        "engines": [
            {
                "name": "cmverif",
                "path": "/verif/cmverif",
                "serves_properties": [c["property_id"] for c in checks],
                "kind_free_text": "hand-written explicit-state / stateless bounded explorer whose transition function is the real "
                "codemodder code (in-process run() and the console script), with reference models and oracles in Python",
            }
        ],
        "checks": checks,
        "not_applicable": na,
        "notes": "Exit 0 = held on everything explored (KNOWN-FINDING lines allowed), 1 = new violation, 3 = harness error. "
        "Known findings: /verif/known_findings.json. VERIF_SEED rotates the visiting order only.",
    }
    import jsonschema

    jsonschema.validate(m, json.loads((VERIF / "spaces" / "manifest.schema.json").read_text()))
    (VERIF / "MANIFEST.json").write_text(json.dumps(m, indent=1) + "\n")
    print(f"MANIFEST.json: {len(checks)} checks, {len(na)} not_applicable")


if __name__ == "__main__":
    sys.exit(main())
