#!/usr/bin/env python3
"""Regenerate /verif/MANIFEST.json from the table below (single source of truth), and validate it."""
import json
import sys
from pathlib import Path

VERIF = Path(__file__).resolve().parent.parent
PY = "/venv/bin/python"

MC = "model_checking"
# property -> (category, technique, text, note, design_ref)
PS = "bounded-exhaustive exploration of the program space on the real code, "
CHECKS = {
    "C01": (MC, PS + "state invariant (compile/parse) on every successor state",
            "Every program (pinned seed x context vector with at most b non-canonical dimensions, b=1 quick / 2 thorough) of every "
            "registered codemod is transformed by the real run(); every state reached - also by re-running and by ordered pairs of "
            "interacting codemods on collision projects (one invocation and chained) - is checked with CPython's compile()/ast.parse.",
            "Relative to the pinned seed corpus and the listed context dimensions; candidates from batched runs are re-executed alone through the CLI twice.",
            "3 C01"),
    "C02": (MC, PS + "symtable-based unresolved-name inclusion on every transition",
            "Same exploration as C01; oracle unresolved(after) subset of unresolved(before) with a scope-aware analysis built on CPython's symtable "
            "(self-tested on a 40-row table), on single runs and on pair histories.",
            "Binding order inside a scope is not modelled; star-import modules and parser-only inputs are not applicable.",
            "3 C02"),
    "C03": (MC, PS + "edge invariant: strict unified-diff fold == bytes on disk",
            "For every transition of the program space (all codemods x file shapes), of the pair histories (several codemods on one file / manifest "
            "in one run) and of a manifest enumeration (4 kinds x content alphabet x 4 file shapes), the reported diffs are folded with a "
            "purpose-built strict applier over the bytes before and compared with the bytes after; files without changeset must be byte-identical.",
            "Applier self-tested exhaustively over small line lists and cross-checked with patch(1); accepts the patch(1) reading or the split/join-on-LF reading; tolerance = one final newline.",
            "3 C03"),
    "C04": (MC, "explicit enumeration of configurations, dry run vs real run on a copy",
            "All 72 manifest combinations (each kind absent / updatable / not updatable) x codemod kinds (detector-less, semgrep-detected, Sonar, "
            "dependency-adding) x option sets with at most b non-default options; recursive snapshot (bytes, mode, mtime_ns) before == after "
            "the dry run and normalised dry report == real report; every codemod kind also over 8 source-file shapes (CRLF, CR, mixed, BOM, "
            "no final newline, form feed, unparseable sibling, second file).",
            "Regex/XML pipeline dry-run guards are covered by C19.",
            "3 C04"),
    "C05": (MC, "explicit enumeration of path-selection configurations against a reference model",
            "A union tree with every path shape (default-excluded directories, non-Python files, file/dir symlinks inside and outside, dangling link), "
            "at two target locations, x all include lists x exclude lists up to the stated length over a 9-pattern alphabet x 3 codemod modes; "
            "set of changed files == ref_select_paths, nothing outside changes, changeset paths == changed files; hidden names beside their "
            "undotted twins and './'-prefixed patterns (two accepted readings).",
            "fnmatch semantics on relative paths; default excludes apply iff no --path-exclude given (weakest reading).",
            "3 C05"),
    "C06": (MC, "exhaustive enumeration of reported-site subsets on multi-site programs, with decoys, against the reference run",
            "For every SAST seed a program with n equally fixable copies of the site (column offsets 0/4/8) is run with ALL 2^n subsets of copies "
            "reported in a generated tool-format file (one file per subset, decoys: foreign rule at a site, foreign file, neighbouring line, "
            "resolved/closed status, empty result file, unreported path twins of reported files); copies rewritten == copies reported and "
            "change entries carry exactly own-rule findings.",
            "Finding locations are the upstream authors' result files relocated by exact shifts; copies are told apart by marker statements.",
            "3 C06"),
    "C08": ("exploration", "bounded-exhaustive differential execution of generated closed-program families",
            "For each refactoring codemod a closed-program family (boolean trees over call kinds, operator x operand-kind tables, argument "
            "kinds, edge values) is generated, every member is transformed by the real run() and original and rewritten program are executed; "
            "observation = stdout and exception type.",
            "Decided only for the generated families (single-codemod runs; multi-codemod runs are C09's).",
            "3 C08"),
    "C13": (MC, "exhaustive enumeration of line-pattern subsets per codemod with measured site lines",
            "For every codemod with single-line sites: n-site file, ALL subsets of site lines excluded / included, relative and globbed spellings, "
            "root and sub-directory, one run per (codemod, mode, spelling) with one file per subset; rewritten sites == permitted sites and change "
            "line numbers == rewritten lines; plus in-process histories: all ordered pairs (triples) of run() calls with different line patterns "
            "on one path, the last run compared with the same run in a fresh state.",
            "Site lines are measured by a pattern-free reference run; codemods whose construct spans several lines are listed as not usable.",
            "3 C13"),
    "C14": (MC, "explicit enumeration of manifest contents x shapes x dependencies x manifest subsets, judged by independent readers",
            "Per-format content alphabets (requirement-line sequences, section shapes, the package already present under other spellings / versions), "
            "4 file shapes, subsets of manifest kinds, two codemods needing the same package in one run; the real dependency update is applied twice "
            "(idempotence) through the public classes and end to end; stdlib/packaging readers decide validity, completeness and duplicates.",
            "A manifest the independent reader cannot parse beforehand is out of scope; 'must be updated' only for plain LF manifests.",
            "3 C14"),
    "C16": (MC, PS + "documented-delta oracle on token multisets and call arguments",
            "For the 23 hardening codemods every program of the program space (argument shape, call layout and import style dimensions included) is "
            "checked: added / removed identifiers, attributes, keywords, constants and imports must lie in the codemod's documented delta and "
            "surviving call arguments (keywords, starred, positional count) must be kept in order.",
            "Delta specs transcribed from the codemods' documentation (DESIGN.md Appendix B); sets of token kinds, not counts per site.",
            "3 C16"),
    "C18": (MC, PS + "detector/transformer agreement using the codemod's own detector answers",
            "For the 22 rule-detected codemods the answers of the codemod's own semgrep run are recorded (harness tap) before and after; a flagged "
            "program that is not of a declined shape must be rewritten or failed, and nothing is flagged inside rewritten lines afterwards.",
            "Declined shapes per DESIGN.md Appendix C; candidates are re-executed alone in fresh worker runs twice.",
            "3 C18"),
    "C19": (MC, "explicit enumeration of texts / XML documents x transformers x finding sets on the real pipeline classes",
            "Regex: all line sequences up to length n over 4 line kinds x EOL shapes x pattern forms x every finding subset x dry-run. XML: documents from a "
            "child alphabet (attributes, namespaces, entities, CDATA, comments, PIs, nested, mixed) x prologs x 6 transformer configurations x finding "
            "subsets, incl. start tags directly followed by CDATA / comment / PI and documents without inter-node whitespace; information-set "
            "comparison via expat, change entries, dry-run and diff fidelity.",
            "Whitespace-only character data, attribute order/quoting and an added XML declaration are insignificant.",
            "3 C19"),
    "C07": (MC, PS + "history BFS depth 2 (run, re-run) with fixed-point oracle",
            "For every program of the program space: s1 = K(P), s2 = K(s1) with identical options and result files through the real run(); "
            "s2 == s1 bytewise and the second report has no changeset; the same history at project level on the collision project "
            "(manifests, a setup.py that is manifest and source) for every interacting codemod.",
            "Relative to the seed corpus and context dimensions; candidates are re-executed alone through the CLI twice.",
            "3 C07"),
    "C09": (MC, "history BFS over codemod sequences on collision projects: one invocation vs chain of single invocations",
            "For every ordered pair of the interacting codemods, and every ordered triple over a smaller set (incl. a codemod that only scans "
            "the shared file), the real run() is executed as one invocation and as a chain on the evolving tree; "
            "states (trees) and per-codemod results are compared; states are de-duplicated by content hash.",
            "Collision projects built from canonical seeds, a shared collision file and a manifest; new candidates re-executed through the CLI twice.",
            "3 C09"),
    "C10": ("fault_enumeration", "exhaustive fault-point enumeration (fault kind x position x pipeline kind, then pairs) against the fault-free twin run",
            "Every single fault (4 content faults, vanish-before-transform, transformer raising on entry / first / middle / last node) at every "
            "file position for three pipeline kinds, plus fault pairs, executed by the real run() with a second codemod following; other files, "
            "changesets, failedFiles, unfixedFindings, report validity and exit status are compared with the fault-free run; 13 shapes of "
            "unprocessable dependency manifests (alone, pairs) must survive a dependency-adding run without losing a line.",
            "vanish/raise faults are injected by harness-installed wrappers (no hooks in /repo); permission faults are invisible as root.",
            "3 C10"),
    "C11": (MC, "stateless preemption-bounded DFS over thread interleavings of the real per-file tasks + exhaustive enumeration of seam answers",
            "(a) every interleaving with at most b preemptions of the per-file tasks on the real ThreadPoolExecutor (baton scheduler; function-level "
            "seams and PEP 669 line events in the framework modules), (b) pool size and measured in-flight tasks for every (w, n), (c) all 24 orders "
            "of the registry's entry points + real PYTHONHASHSEED runs, (d) every order of Path.rglob answers, (e) sibling independence over subsets "
            "of a small project for every codemod, (f) every canonical seed of every codemod under PYTHONHASHSEED 0..3 / 0..7 through the console "
            "script, (g) 0 / 30 / 700 unrelated sibling files; in each dimension exactly one outcome is required.",
            "Schedules serialise tasks at line/function granularity (GIL semantics); C-level races inside libcst are out of scope.",
            "3 C11"),
    "C12": (MC, "exhaustive enumeration of result-set families and generated tool documents against reference merge / extraction",
            "All ordered families of result sets over 2 rules x 2 files with 0-2 results per key (pairs; triples) merged with | and |= for the base "
            "class and the four tool classes; generated Sonar / SARIF / DefectDojo documents through the public parsers and loader functions; "
            "end-to-end runs over every partition of n findings into result files, every order and flag assignment.",
            "Multiset comparison; foreign (rule, file) keys are ignored as the property allows.",
            "3 C12"),
    "C15": (MC, "state invariant (schema + structural invariants) on every report of the pair histories and a corner enumeration",
            "A vendored CodeTF schema and the structural invariants of the property are evaluated on the report, tree and log of every state of "
            "the pair-history graph and of a dedicated enumeration of corner configurations (zero codemods / files, failures, dependency "
            "changes, non-ASCII, SAST tools, dry run, whole default and Sonar sets, injected write / transform faults whose run completes).",
            "Line-number bound computed by folding the reported diffs (covers several codemods and dry runs).",
            "3 C15"),
    "C20": (MC, "explicit enumeration of labelled argument vectors x run-time conditions against a decision table",
            "All ordered vectors of at most b labelled option fragments (valid, info, immediate / deferred errors, conflicts), both directory "
            "positions, crossed with run-time conditions (directory, result files, AI environment, output path: singles and pairs), through the "
            "real run(); every fragment and condition class also through the console script; output targets include a stale file, a symlink, "
            "a named pipe with a reader and /dev/null.",
            "With several applicable failure conditions any of their statuses is accepted; read-only outputs not enumerable as root.",
            "3 C20"),
    "C17": (
        MC,
        "explicit-state enumeration of selection configurations against a reference model",
        "Every include/exclude list up to the stated length over a 13-token alphabet, in both eligibility modes, "
        "on the real registry under all 24 entry-point orders and on two synthetic registries, is pushed through the real "
        "match_codemods and compared with a reference selection; a set of end-to-end runs compares the executed "
        "sequence (log) and the report with the same reference, including option values that name nothing.",
        "Reference model = DESIGN.md Appendix E; weakest reading for default-excluded ids under a user exclude list.",
        "3 C17",
    ),
}

NOT_BUILT = "check not built yet in this session (planned, see DESIGN.md section 3)"


def main():
    props = [json.loads(l)["id"] for l in (VERIF / "properties.jsonl").read_text().splitlines() if l.strip()]
    checks, na = [], []
    for p in props:
        if p in CHECKS and (VERIF / "cmverif" / "checks" / f"{p.lower()}.py").exists():
            cat, tech, text, note, ref = CHECKS[p]
            checks.append(
                {
                    "property_id": p,
                    "quick_cmd": f"{PY} -m cmverif check {p} --tier quick",
                    "thorough_cmd": f"{PY} -m cmverif check {p} --tier thorough",
                    "evidence_file": f"/verif/evidence/{p}.json",
                    "replay_cmd_template": f"{PY} -m cmverif replay {{path}}",
                    "engine": "cmverif",
                    "level_claimed": {"category": cat, "text": text, "design_ref": f"DESIGN.md {ref}"},
                    "level_note": note,
                    "technique": tech,
                }
            )
        else:
            na.append({"property_id": p, "reason": NOT_BUILT})
    m = {
        "version": 1,
        "setup_cmd": f"{PY} -m cmverif selftest",
        "hooks": {
            "guard": "CODEMODDER_VERIF",
            "enable": "no hooks are compiled into /repo: all seams (fault wrappers, scheduler gate, permutation seams, "
            "log capture) are installed by the harness process at run time; checks import /repo/src directly",
            "baseline_off_cmd": "cd /repo && /venv/bin/python -m pytest -ra -q -p no:cacheprovider --timeout=900 --continue-on-collection-errors",
            "source_commits": [],
            "add_only": True,
        },
        "engines": [
            {
                "name": "cmverif",
                "path": "/verif/cmverif",
                "serves_properties": [c["property_id"] for c in checks],
                "kind_free_text": "hand-written explicit-state / stateless bounded explorer whose transition function is the real "
                "codemodder code (in-process run() and the console script), with reference models and oracles in Python",
            }
        ],
        "checks": checks,
        "not_applicable": na,
        "notes": "Exit 0 = held on everything explored (KNOWN-FINDING lines allowed), 1 = new violation, 3 = harness error. "
        "Known findings: /verif/known_findings.json. VERIF_SEED rotates the visiting order only.",
    }
    import jsonschema

    jsonschema.validate(m, json.loads((VERIF / "spaces" / "manifest.schema.json").read_text()))
    (VERIF / "MANIFEST.json").write_text(json.dumps(m, indent=1) + "\n")
    print(f"MANIFEST.json: {len(checks)} checks, {len(na)} not_applicable")


if __name__ == "__main__":
    sys.exit(main())
