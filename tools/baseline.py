#!/usr/bin/env python3
"""Run the repository's pinned baseline (guard off) and report stable tests that no longer pass.
usage: baseline.py [repo_dir] [pytest args...]   exit 0 iff every stable test passed."""
import json, os, subprocess, sys, tempfile, xml.etree.ElementTree as ET

repo = sys.argv[1] if len(sys.argv) > 1 else "/repo"
extra = sys.argv[2:]
b = json.load(open("/root/.vp/BASELINE.json"))
stable = set(b["stable_pass"])
fd, junit = tempfile.mkstemp(suffix=".xml", dir="/dev/shm")
os.close(fd)
env = dict(os.environ)
env.pop("CODEMODDER_VERIF", None)
# the editable install points at /repo/src: a worktree is only under test when its own src comes first on sys.path
env["PYTHONPATH"] = os.path.join(os.path.abspath(repo), "src")
where = subprocess.run(["/venv/bin/python", "-c", "import codemodder, core_codemods; print(codemodder.__file__); print(core_codemods.__file__)"],
                       cwd=repo, env=env, capture_output=True, text=True).stdout.split()
if len(where) != 2 or not all(w.startswith(os.path.abspath(repo) + "/src/") for w in where):
    print("baseline would not test", repo, "- imports resolve to", where)
    sys.exit(2)
cmd = ["/venv/bin/python", "-m", "pytest", "-ra", "-q", "-p", "no:cacheprovider", "--timeout=900",
       "--continue-on-collection-errors", f"--junitxml={junit}"] + extra
p = subprocess.run(cmd, cwd=repo, env=env, capture_output=True, text=True)
passed = set()
for tc in ET.parse(junit).getroot().iter("testcase"):
    if not any(c.tag in ("failure", "error", "skipped") for c in tc):
        passed.add(f"{tc.get('classname')}::{tc.get('name')}")
os.unlink(junit)
missing = sorted(stable - passed)
print(p.stdout[-600:])
print(f"stable={len(stable)} passed_now={len(passed)} stable_not_passing={len(missing)}")
for m in missing[:40]:
    print("  NOT PASSING:", m)
sys.exit(1 if missing else 0)
