#!/usr/bin/env python3
"""Verify and keep a seeded property-breaking change produced in a scratch worktree.

usage: seeded.py <worktree> <name> <property> [--checks C03,C15]
  1. the patch must apply to the current /repo HEAD (git apply --check)
  2. the pinned baseline must still pass in the worktree (change applied)
  3. the demonstration must fail (exit 1) against the worktree and pass (exit 0) against /repo
  4. optionally run the named checks against the worktree (tools/against.sh) and record whether they go red
Everything is recorded in /verif/seeded/<name>/meta.json next to patch.diff and the demo.
"""
import argparse
import json
import os
import shutil
import subprocess
import sys
from pathlib import Path

VERIF = Path(__file__).resolve().parent.parent


def sh(cmd, **kw):
    return subprocess.run(cmd, capture_output=True, text=True, **kw)


def main():
    ap = argparse.ArgumentParser()
    ap.add_argument("worktree")
    ap.add_argument("name")
    ap.add_argument("prop")
    ap.add_argument("--checks", default="")
    ap.add_argument("--skip-baseline", action="store_true")
    a = ap.parse_args()
    wt = Path(a.worktree)
    seeded = wt / "_seeded"
    out = VERIF / "seeded" / a.name
    out.mkdir(parents=True, exist_ok=True)
    patch = sh(["git", "-C", str(wt), "diff", "--", "src"]).stdout
    (out / "patch.diff").write_text(patch)
    demo = next((p for p in (seeded / "demo.py", seeded / "demo.sh") if p.exists()), None)
    if demo is None:
        sys.exit("no demo in " + str(seeded))
    shutil.copy(demo, out / demo.name)
    meta = json.loads((seeded / "meta.json").read_text()) if (seeded / "meta.json").exists() else {}
    previous = json.loads((out / "meta.json").read_text()) if (out / "meta.json").exists() else {}
    meta = {"property": a.prop, "from_agent": meta}
    # keep what earlier verification runs established (baseline result, verdicts of the checks before they were strengthened)
    if previous.get("baseline_with_change"):
        meta["baseline_with_change"] = previous["baseline_with_change"]
    meta["earlier_check_verdicts"] = previous.get("earlier_check_verdicts", []) + ([{k: v["exit"] for k, v in previous["checks"].items()}] if previous.get("checks") else [])
    chk = sh(["git", "-C", "/repo", "apply", "--check", str(out / "patch.diff")])
    meta["applies_to_repo_head"] = chk.returncode == 0
    meta["repo_head"] = sh(["git", "-C", "/repo", "rev-parse", "--short", "HEAD"]).stdout.strip()
    env = dict(os.environ, PATH="/venv/bin:" + os.environ.get("PATH", ""), SEMGREP_SEND_METRICS="off", SEMGREP_ENABLE_VERSION_CHECK="0")
    runner = ["/venv/bin/python"] if demo.suffix == ".py" else ["bash"]
    w = sh(runner + [str(out / demo.name), str(wt / "src")], env=env, timeout=1200)
    wo = sh(runner + [str(out / demo.name), "/repo/src"], env=env, timeout=1200)
    meta["demo_with_change"] = {"exit": w.returncode, "tail": (w.stdout + w.stderr)[-400:]}
    meta["demo_without_change"] = {"exit": wo.returncode, "tail": (wo.stdout + wo.stderr)[-300:]}
    if not a.skip_baseline:
        b = sh(["/venv/bin/python", str(VERIF / "tools" / "baseline.py"), str(wt)], timeout=3600)
        meta["baseline_with_change"] = {"exit": b.returncode, "tail": b.stdout[-200:]}
    meta["checks"] = {}
    for c in [c for c in a.checks.split(",") if c]:
        r = sh([str(VERIF / "tools" / "against.sh"), str(wt), c], timeout=7200)
        lines = [l for l in r.stdout.splitlines() if l.startswith(("VIOLATION", "  signature", "HARNESS"))]
        meta["checks"][c] = {"exit": r.returncode, "lines": lines[:6]}
    ok = meta["demo_with_change"]["exit"] != 0 and meta["demo_without_change"]["exit"] == 0 and meta.get("baseline_with_change", {}).get("exit") == 0
    meta["confirmed"] = ok
    meta["what_i_ran"] = "git apply --check on /repo HEAD; demo against the worktree and against /repo/src; pinned baseline in the worktree; checks via tools/against.sh (CMVERIF_REPO=<worktree>)"
    (out / "meta.json").write_text(json.dumps(meta, indent=1) + "\n")
    print(json.dumps({k: meta[k] for k in ("applies_to_repo_head", "confirmed", "checks")}, indent=1))
    print("demo with:", meta["demo_with_change"]["exit"], "| without:", meta["demo_without_change"]["exit"], "| baseline:", meta.get("baseline_with_change", {}).get("exit"))


if __name__ == "__main__":
    main()
